#!/bin/bash
# usage: seedprep.sh <prop>  — scratch worktree of /repo at /tmp/seed/<prop> (contract hook files hidden by a scratch commit on the
# detached HEAD, so the sub-agent sees nothing of the verification work), and the sub-agent prompt in /tmp/seed/<prop>.prompt
set -eu
P=$1; W=/tmp/seed/$P
mkdir -p /tmp/seed
[ -d $W ] && git -C /repo worktree remove --force $W
git -C /repo worktree add --detach $W HEAD -q
cd $W
git rm -q $(git ls-files | grep -E 'verif_(contracts|lemmas)\.go$')
git -c user.name=scratch -c user.email=s@x commit -qm "scratch: hide hook files"
python3 - "$P" <<'PY'
import json,sys
p=sys.argv[1]
for l in open('/verif/properties.jsonl'):
    o=json.loads(l)
    if o['id']==p:
        text="%s — %s\n\n%s\n\n(quantified over: %s)" % (o['id'],o['title'],o['statement'],o['quantifier']['text'])
        t=open('/verif/tools/seed_prompt.tmpl').read().replace('@ID@',p).replace('@PROP@',text)
        open('/tmp/seed/%s.prompt'%p,'w').write(t)
PY
echo prepared $W
