#!/usr/bin/env python3
"""Regenerates /verif/MANIFEST.json from the table below (single source of truth)."""
import json, subprocess

ENV = "GOFLAGS=-mod=mod GOPROXY=off GOSUMDB=off GOTOOLCHAIN=local"
SETUP = f"cd /verif/engine && {ENV} go build -o /verif/bin/vcheck ./cmd/vcheck"
BASE_OFF = "for m in $(cat /w/out/gomods.txt); do MF=$(cd /repo/$m && . /w/out/goenv.sh && gomodflag); (cd /repo/$m && go test $MF -json -vet=off -count=1 -timeout 25m ./...); done"

TRUST = ("Trusted base: the VC generator in /verif/engine (unverified; defended by the must-fail corpus in /verif/seeded, run with "
         "tools/seedall.sh), the SMT solvers, the assumed contracts and library abstractions listed in the evidence file "
         "(trusted_base / assumptions), machine integers modelled exactly as bit-vectors. ")

TECH = "contract-based deductive verification: WP/symbolic execution over go/ssa of the real functions + SMT (z3/cvc5)"
CHECKS = {k: (v["text"], v["note"].replace("{TRUST}", TRUST), TECH) for k, v in json.load(open('/verif/tools/checks.json')).items()}

NA = {
 "C22": "protocol-level safety over all executions of a distributed protocol (message delay, loss, Byzantine voters): not expressible as per-function contracts; the per-call threshold/quorum facts are covered under C18/C19/C21 where claimed",
 "C29": "oracle is a reference implementation of cryptographic primitives (BLAKE2b, xxHash, Keccak, ed25519/ZIP-215, schnorrkel, secp256k1) behind third-party assembly/unsafe code: no contract within reach decides digest or verdict equality",
 "C01": "not reached: the statement equates the computed root with the specification's Merkle root of a finite map for every history; the kernels it rests on are covered elsewhere (node encoding and header: C07, walkers of the in-memory trie: C02, hashed-value threshold: C06), but no contract carries 'root == specRoot(map)' through insert/delete/encode (needs an inductive specification of the trie shape, not attempted)",
 "C04": "not reached: round trip through the database (WriteDirty / Load / GetFromDB) over a key-value store model; no contracts written",
 "C05": "not reached: proof generation / verification are recursive walks over decoded nodes with hashing as an oracle; no contracts written",
 "C14": "not reached: the only kernels within reach (compact integers, NewBodyFromEncodedBytes) are covered under C11; byte-for-byte agreement with an independent encoder for every chain type is outside per-function contracts over reflection-driven SCALE code",
 "C20": "not reached: round state over a vote graph (ancestry walks, cumulative weights over a tree) needs inductive graph specifications; no contracts written",
 "C36": "quantifies over crash points of a global write history across packages followed by the restart path over pebble: needs a whole-schema recoverability predicate and fault enumeration, not a per-function contract",
}

def main():
    props = [json.loads(l) for l in open('/verif/properties.jsonl')]
    hooks = subprocess.run(["git", "-C", "/repo", "log", "--format=%H %s"], capture_output=True, text=True).stdout.splitlines()
    hook_commits = [l.split()[0] for l in hooks if " verif hooks:" in " " + l.split(" ", 1)[1]]
    checks = []
    na = []
    for p in props:
        pid = p["id"]
        if pid in CHECKS:
            text, note, tech = CHECKS[pid]
            checks.append({
                "property_id": pid,
                "quick_cmd": f"cd /verif && bin/vcheck check --property {pid} --tier quick",
                "thorough_cmd": f"cd /verif && bin/vcheck check --property {pid} --tier thorough",
                "evidence_file": f"/verif/evidence/{pid}.json",
                "replay_cmd_template": "cd /verif && bin/vcheck replay --file {path}",
                "engine": "vcheck",
                "level_claimed": {"category": "proof", "text": text, "design_ref": f"DESIGN.md §6 {pid}"},
                "level_note": note,
                "technique": tech,
            })
        else:
            na.append({"property_id": pid, "reason": NA.get(pid, "not reached yet: no contract set committed for this property (engine under construction)")})
    m = {
        "version": 1,
        "setup_cmd": SETUP,
        "hooks": {"guard": "verif",
                  "enable": "go build -tags verif; the only hook files are /repo/<pkg>/verif_contracts.go (comment-only contract files behind //go:build verif) , /repo/pkg/scale/verif_lemmas.go (composition lemmas written as Go functions, behind the same tag, called by nothing) and /repo/pkg/trie/triedb/verif_inst.go (names instantiations of the generic trie engine so that the verifier has a concrete instance; called by nothing)",
                  "baseline_off_cmd": BASE_OFF,
                  "source_commits": hook_commits,
                  "add_only": True},
        "engines": [{"name": "vcheck", "path": "/verif/engine", "serves_properties": sorted(CHECKS),
                     "kind_free_text": "own verification-condition generator (symbolic execution / weakest preconditions over go/ssa of /repo's working tree, contracts from verif_contracts.go) discharging obligations with z3 4.8.12, z3 5.1.0, cvc5 1.0.3; counterexamples replayed with go test -overlay"}],
        "checks": checks,
        "notes": "Contracts live in /repo/<pkg>/verif_contracts.go (tag verif). known_findings.jsonl lists fixed/known defects. Seeded property-breaking changes are under /verif/seeded (tools/seedrun.sh applies one, runs the check, undoes it). Two commits in /repo titled 'round N: uncommitted hook changes (driver)' are automatic snapshots: round 0 is empty; round 1 carried an unguarded in-progress edit of pkg/trie/inmemory/in_memory.go which the following commit reverts (in_memory.go equals the pinned source). DESIGN.md section 0b is the status of what is built and claimed.",
        "not_applicable": na,
    }
    json.dump(m, open('/verif/MANIFEST.json', 'w'), indent=1)
    print("checks:", len(checks), "not_applicable:", len(na), "hook commits:", len(hook_commits))

if __name__ == "__main__":
    main()
