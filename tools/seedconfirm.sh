#!/bin/bash
# usage: seedconfirm.sh <prop> <n>   — confirms a sub-agent's seeded change in a scratch worktree and files it under /verif/seeded
# (demo passes without the patch, fails with it; existing tests of the touched packages still pass with it)
set -u
export GOFLAGS=-mod=mod GOPROXY=off GOSUMDB=off GOTOOLCHAIN=local
P=$1; N=$2; SRC=/tmp/seed/$P/_out/$N
[ -f $SRC/patch.diff ] || { echo "no patch"; exit 2; }
WT=$(mktemp -d /tmp/seedwt.XXXXXX); rmdir $WT
git -C /repo worktree add --detach $WT ${SEEDBASE:-HEAD} -q || exit 2
trap 'git -C /repo worktree remove --force $WT' EXIT
PKG=$(python3 -c "import json;print(json.load(open('$SRC/meta.json'))['demo_pkg'])")
RUN=$(python3 -c "import json;print(json.load(open('$SRC/meta.json'))['demo_run'])")
RUN=${RUN#-run }; RUN=${RUN//\'/}
cp $SRC/demo_test.go $WT/$PKG/zz_seed_demo_test.go
cd $WT
OUT=/verif/seeded/$P-$N; mkdir -p $OUT
go test -vet=off -count=1 -run "$RUN" ./$PKG > $OUT/demo_without_patch.log 2>&1; A=$?
git apply $SRC/patch.diff || { echo "patch does not apply"; exit 2; }
go build ./... > $OUT/build_with_patch.log 2>&1; B=$?
go test -vet=off -count=1 -run "$RUN" ./$PKG > $OUT/demo_with_patch.log 2>&1; C=$?
rm $WT/$PKG/zz_seed_demo_test.go
PKGS=$(git diff --name-only | xargs -n1 dirname | sort -u | sed 's|^|./|')
go test -vet=off -count=1 $PKGS > $OUT/pkgtests_with_patch.log 2>&1; D=$?
cp $SRC/patch.diff $SRC/demo_test.go $OUT/
python3 - <<PY
import json
m=json.load(open('$SRC/meta.json'))
m['confirmed']={'demo_passes_without_patch': $A==0, 'builds_with_patch': $B==0, 'demo_fails_with_patch': $C!=0, 'package_tests_pass_with_patch': $D==0,
 'ran': 'tools/seedconfirm.sh $P $N: go test -run "$RUN" ./$PKG before/after git apply; go build ./...; go test $PKGS'.replace('\n',' ')}
json.dump(m,open('$OUT/meta.json','w'),indent=1)
print('$P-$N', m['confirmed'])
PY
