#!/bin/bash
# usage: seedrun.sh <seed dir name under /verif/seeded> [tier]  — applies the seeded change to /repo, runs the property's check, undoes it
S=/verif/seeded/$1; T=${2:-quick}
if [ -n "$(git -C /repo status --porcelain)" ]; then echo "/repo has uncommitted changes: commit them first (the undo step would discard them)"; exit 3; fi
P=$(python3 -c "import json;print(json.load(open('$S/meta.json'))['property'])")
# strict application only: a fuzzy `patch -F3` once placed a hunk inside dead code after a later fix commit had changed
# the context, and the check then (rightly) passed on a tree that was not broken at all
git -C /repo apply $S/patch.diff 2>/dev/null || git -C /repo apply -C2 $S/patch.diff 2>/dev/null || { echo "$1: patch does not apply to the current tree (rebase the seed)"; exit 2; }
cp /verif/evidence/$P.json /tmp/seedrun_ev_$P.json 2>/dev/null
(cd /verif && bin/vcheck check --property $P --tier $T) > /tmp/seedrun_$1.log 2>&1; RC=$?
cp /tmp/seedrun_ev_$P.json /verif/evidence/$P.json 2>/dev/null
git -C /repo checkout -- .; git -C /repo clean -fdq -- "*.orig" "*.rej" 2>/dev/null; find /repo -name "*.orig" -o -name "*.rej" | xargs -r rm -f
echo "$1 property=$P exit=$RC"; grep -c "^VIOLATION" /tmp/seedrun_$1.log; grep "^VIOLATION" /tmp/seedrun_$1.log | cut -c1-330 | head -5
