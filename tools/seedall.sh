#!/bin/bash
# runs every filed seed whose property has a check (strict application; a seed that no longer applies is reported as such)
cd /verif
claimed=$(python3 -c "import json;print(' '.join(sorted(json.load(open('tools/checks.json')))))")
for d in $(ls seeded); do
  p=${d%-*}
  case " $claimed " in *" $p "*) ;; *) echo "$d property=$p no-check"; continue;; esac
  out=$(timeout 2400 tools/seedrun.sh $d 2>&1); 
  echo "$out" | grep -E "^$d |does not apply" | head -1
  echo "$out" | grep "^VIOLATION" | head -1 | cut -c1-260
done
