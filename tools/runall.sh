#!/bin/bash
# runs every claimed check (quick tier by default) on the current tree; prints one summary line per property
cd /verif
for p in $(python3 -c "import json;print(' '.join(sorted(json.load(open('tools/checks.json')))))"); do
  out=$(bin/vcheck check --property $p --tier ${1:-quick} 2>&1); rc=$?
  echo "$p exit=$rc $(echo "$out" | grep '^property' | cut -c1-120) viol=$(echo "$out" | grep -c '^VIOLATION')"
  echo "$out" | grep '^VIOLATION' | cut -c1-260 | head -3
done
