#!/usr/bin/env python3
# rewrites the "Claimed now" table of DESIGN.md section 0b from the evidence files of the last run
import json, glob, re
rows = []
for f in sorted(glob.glob('/verif/evidence/C*.json')):
    e = json.load(open(f)); c = e['coverage']
    rows.append((e['property_id'], len(c.get('functions_under_contract', [])), c['obligations'], c['discharged'], len(c.get('known_findings') or []), round(e['wall_s'])))
table = "| prop | functions under contract | obligations | discharged | known findings | wall (s) |\n|---|---|---|---|---|---|\n" + "\n".join("| %s | %d | %d | %d | %d | %d |" % r for r in rows)
s = open('/verif/DESIGN.md').read()
i = s.index('### Claimed now:'); j = s.index('What each check proves, and what it does not', i)
head = "### Claimed now: %d properties\n\n%s. Every quick check exits 0 on the unchanged tree (`tools/runall.sh`; the fresh-restore runs `vp check` 2-5 reported\nnothing). The thorough tier (longer limits, cross-check between solvers) was run over all of them at the end of the session and is quiet too. Counts from the evidence files of the last run (quick tier, 16 cores):\n\n%s\n\n" % (len(rows), ", ".join(r[0] for r in rows), table)
s = s[:i] + head + s[j:]
s = re.sub(r'\*\*Built and\n  claimed so far: \d+\*\*', '**Built and\n  claimed so far: %d**' % len(rows), s)
open('/verif/DESIGN.md', 'w').write(s)
print(len(rows), "rows")
