package vc

import (
	"fmt"
	"go/types"
	"regexp"
	"sort"
	"strings"

	"golang.org/x/tools/go/ssa"
)

// Value is a symbolic Go value in flattened form.
type Value struct {
	T   types.Type
	L   []*Term  // one term per leaf of T
	Loc *Loc     // for pointer values with a statically known (possibly interior) location
	Fn  *FuncVal // for function values known statically
	Tup []Value  // for tuple values (multi-result calls)
}

type FuncVal struct {
	Fn    *ssa.Function
	Binds []Value // closure bindings
	Recv  *Value  // bound method receiver
}

// Loc is a resolved memory location.
type Loc struct {
	Fam   string
	RootT types.Type
	Ref   *Term
	Idx   []*Term
	Lo    int
	Hi    int
	T     types.Type
}

type pcNode struct {
	t    *Term
	prev *pcNode
	n    int
}

// Decl of an SMT symbol.
type Decl struct {
	Name string
	Text string // full declaration command
}

// Ctx is the per-run global context (declarations, type caches).
type Ctx struct {
	leafCache map[types.Type][]Leaf
	decls     map[string]string // name -> declaration command
	declOrder []string
	fresh     int
	typeTags  map[string]int
	tagTypes  []types.Type
	axioms    []*Term // global axioms (always asserted when their symbols are used)
	strLits   map[string]*Term
	strAx     bool
	globals   map[*ssa.Global]int
	Prog      *ssa.Program
	Notes     map[string]bool // assumptions encountered
}

func NewCtx() *Ctx {
	c := &Ctx{leafCache: map[types.Type][]Leaf{}, decls: map[string]string{}, typeTags: map[string]int{}, strLits: map[string]*Term{}, globals: map[*ssa.Global]int{}, Notes: map[string]bool{}}
	c.tagTypes = append(c.tagTypes, nil)
	c.declRaw("Str", "(declare-sort Str 0)")
	c.declFun("str.len", []Sort{SStr}, idxSort)
	c.declFun("str.at", []Sort{SStr, idxSort}, SBV(8))
	c.declFun("str.lt", []Sort{SStr, SStr}, SBool)
	c.declFun("str.of", []Sort{SArr(idxSort, SBV(8)), idxSort, idxSort}, SStr) // string(bytes[off:off+len])
	c.declFun("str.cat", []Sort{SStr, SStr}, SStr)
	c.declRaw("str.empty", "(declare-fun str.empty () Str)")
	return c
}

func (c *Ctx) note(f string, a ...any) { c.Notes[fmt.Sprintf(f, a...)] = true }

func (c *Ctx) declRaw(name, text string) {
	if _, ok := c.decls[name]; ok {
		return
	}
	c.decls[name] = text
	c.declOrder = append(c.declOrder, name)
}

func (c *Ctx) declFun(name string, args []Sort, ret Sort) {
	var as []string
	for _, a := range args {
		as = append(as, a.String())
	}
	c.declRaw(name, fmt.Sprintf("(declare-fun %s (%s) %s)", name, strings.Join(as, " "), ret.String()))
}

// Fresh declares a fresh constant.
func (c *Ctx) Fresh(hint string, s Sort) *Term {
	c.fresh++
	name := fmt.Sprintf("%s!%d", sanitize(hint), c.fresh)
	c.declFun(name, nil, s)
	return Var(name, s)
}

func (c *Ctx) Named(name string, s Sort) *Term {
	name = sanitize(name)
	c.declFun(name, nil, s)
	return Var(name, s)
}

var byteWord = regexp.MustCompile(`\bbyte\b`)
var runeWord = regexp.MustCompile(`\brune\b`)

func (c *Ctx) typeTag(T types.Type) int {
	k := runeWord.ReplaceAllString(byteWord.ReplaceAllString(typeName(T), "uint8"), "int32")
	if id, ok := c.typeTags[k]; ok {
		return id
	}
	id := len(c.tagTypes)
	c.typeTags[k] = id
	c.tagTypes = append(c.tagTypes, T)
	return id
}

// State is the per-path symbolic state.
type State struct {
	heap    map[string]*Term
	pc      *pcNode
	alloc   *Term
	ghost   map[string]*Term
	calls   map[string][]Value // arguments of the most recent call to each function (ghost call log)
	written *writeSet // shared: components written (for loop write-set discovery)
	dry     bool
	depth   int
}

func (s *State) clone() *State {
	n := *s
	n.heap = make(map[string]*Term, len(s.heap))
	for k, v := range s.heap {
		n.heap[k] = v
	}
	n.ghost = make(map[string]*Term, len(s.ghost))
	for k, v := range s.ghost {
		n.ghost[k] = v
	}
	n.calls = make(map[string][]Value, len(s.calls))
	for k, v := range s.calls {
		n.calls[k] = v
	}
	return &n
}

func (s *State) assume(t *Term) {
	if t.IsTrue() {
		return
	}
	n := 1
	if s.pc != nil {
		n = s.pc.n + 1
	}
	s.pc = &pcNode{t: t, prev: s.pc, n: n}
}

func (s *State) pcList() []*Term {
	var out []*Term
	for p := s.pc; p != nil; p = p.prev {
		out = append(out, p.t)
	}
	for i, j := 0, len(out)-1; i < j; i, j = i+1, j-1 {
		out[i], out[j] = out[j], out[i]
	}
	return out
}

// compSort gives the sort of heap component fam#j.
func (c *Ctx) compSort(fam string, root types.Type, j int) Sort {
	l := c.leaves(root)[j]
	if strings.HasPrefix(fam, "arr:") {
		return SArr(SInt, SArr(idxSort, l.S))
	}
	return SArr(SInt, l.S)
}

func compKey(fam string, j int) string { return fmt.Sprintf("%s#%d", fam, j) }

// comp returns the current term of a heap component, creating the initial symbolic one on demand.
func (x *Exec) comp(st *State, fam string, root types.Type, j int) *Term {
	k := compKey(fam, j)
	if t, ok := st.heap[k]; ok {
		return t
	}
	// initial heap component: a named constant shared by all paths
	l := x.c.leaves(root)[j]
	pref := "H0_"
	if x.heapPrefix != "" {
		pref = x.heapPrefix
	}
	t := x.c.Named(pref+fam+l.Path, x.c.compSort(fam, root, j))
	x.heapInfo[k] = heapInfo{fam, root, j}
	st.heap[k] = t
	x.assumeGlobFacts(st, k, t)
	x.heapWF(t, l, strings.HasPrefix(fam, "arr:"))
	return t
}

// heapWF: every reference stored in the entry heap denotes an object that existed at entry
// (assumption A-heapwf), i.e. is at most alloc0. Needed to separate fresh allocations from everything
// reachable from the inputs.
func (x *Exec) heapWF(h0 *Term, l Leaf, isArr bool) {
	if x.inInit || x.heapPrefix != "" || (l.Kind != 'r' && l.Kind != 'p') {
		return
	}
	if x.axiomSeen["wf:"+h0.Name] {
		return
	}
	x.axiomSeen["wf:"+h0.Name] = true
	x.qcount++
	r := Var("r!wf"+itoa(x.qcount), SInt)
	vars := []*Term{r}
	t := Select(h0, r)
	dims := l.Dims
	if isArr {
		dims++
	}
	for d := 0; d < dims; d++ {
		x.qcount++
		i := Var("i!wf"+itoa(x.qcount), idxSort)
		vars = append(vars, i)
		t = Select(t, i)
	}
	// only for objects that exist at entry (r <= alloc0): the entry heap beyond alloc0 stands for the
	// unknown contents of objects allocated by earlier loop iterations and must stay unconstrained
	a0 := x.c.Named("alloc0", SInt)
	x.extraAxioms = append(x.extraAxioms, Quant("forall", vars, Implies(IntCmp("<=", r, a0), IntCmp("<=", t, a0)), t))
}

type heapInfo struct {
	fam  string
	root types.Type
	j    int
}

func (x *Exec) setComp(st *State, fam string, root types.Type, j int, t *Term) {
	k := compKey(fam, j)
	x.heapInfo[k] = heapInfo{fam, root, j}
	// name the new heap version to keep terms small
	l := x.c.leaves(root)[j]
	v := x.c.Fresh("H_"+fam+l.Path, t.S)
	v.Def = t
	st.assume(Eq(v, t))
	x.defs[v.Name] = t
	st.heap[k] = v
	x.recordWrite(st, k, t)
	x.frameWrite(st, k, t)
	if t.Op == "store" {
		x.guardAccess(st, t.Args[1], true)
	}
}

// writeSet records, during a dry run of a loop body, which heap components are written and at which
// (loop-invariant) references.
type wrec struct {
	all  bool
	refs []*Term
	seen map[string]bool
}
type writeSet struct {
	ghost map[string]bool // ghost keys written ("call:<name>" for call-log entries)
	comps map[string]*wrec
	start int // value of the fresh-symbol counter when the dry run started
}

func symCounter(name string) int {
	i := strings.LastIndex(name, "!")
	if i < 0 {
		return 0
	}
	n := 0
	for _, c := range name[i+1:] {
		if c < '0' || c > '9' {
			return 0
		}
		n = n*10 + int(c-'0')
	}
	return n
}

func (x *Exec) recordWrite(st *State, k string, t *Term) {
	ws := st.written
	if ws == nil {
		return
	}
	r := ws.comps[k]
	if r == nil {
		r = &wrec{seen: map[string]bool{}}
		ws.comps[k] = r
	}
	if t == nil || t.Op != "store" {
		r.all = true
		return
	}
	ref := t.Args[1]
	if ref.Op == "const" && strings.HasPrefix(ref.Name, "ref_") && symCounter(ref.Name) > ws.start {
		return // object allocated inside the loop body: invisible at the loop head
	}
	syms := map[string]bool{}
	ref.FreeConsts(syms)
	for s := range syms {
		if symCounter(s) > ws.start {
			r.all = true
			return
		}
	}
	if !r.seen[ref.String()] {
		r.seen[ref.String()] = true
		r.refs = append(r.refs, ref)
	}
}

func (x *Exec) assumeGlobFacts(st *State, k string, comp *Term) {
	if x.inInit {
		return
	}
	// Facts about constant globals are asserted as global axioms about the component symbol (not as
	// path assumptions, which would become path guards when states are merged).
	for _, f := range x.globFacts[k] {
		key := comp.String() + "@" + f.ref.String()
		if x.axiomSeen[key] {
			continue
		}
		x.axiomSeen[key] = true
		x.extraAxioms = append(x.extraAxioms, Eq(Select(comp, f.ref), f.val))
	}
}

func (x *Exec) havocComp(st *State, k string) {
	x.recordWrite(st, k, nil)
	hi, ok := x.heapInfo[k]
	if !ok {
		if s, ok := x.rawSorts[k]; ok {
			st.heap[k] = x.c.Fresh("Hh_"+k, s)
		}
		return
	}
	l := x.c.leaves(hi.root)[hi.j]
	st.heap[k] = x.c.Fresh("Hh_"+hi.fam+l.Path, x.c.compSort(hi.fam, hi.root, hi.j))
	x.assumeGlobFacts(st, k, st.heap[k])
}

// load reads the value at loc.
func (x *Exec) load(st *State, loc *Loc) Value {
	ls := x.c.leaves(loc.RootT)
	v := Value{T: loc.T}
	for j := loc.Lo; j < loc.Hi; j++ {
		t := Select(x.comp(st, loc.Fam, loc.RootT, j), loc.Ref)
		for _, i := range loc.Idx {
			t = Select(t, i)
		}
		_ = ls
		v.L = append(v.L, t)
	}
	return v
}

func boolInt(b bool) int {
	if b {
		return 1
	}
	return 0
}

func storeNest(arr *Term, idx []*Term, v *Term) *Term {
	if len(idx) == 0 {
		return v
	}
	return Store(arr, idx[0], storeNest(Select(arr, idx[0]), idx[1:], v))
}

func (x *Exec) store(st *State, loc *Loc, v Value) {
	if len(v.L) != loc.Hi-loc.Lo {
		unsup("store arity mismatch at %s: %d leaves into %d (%s)", loc.Fam, len(v.L), loc.Hi-loc.Lo, loc.T)
	}
	for j := loc.Lo; j < loc.Hi; j++ {
		c := x.comp(st, loc.Fam, loc.RootT, j)
		inner := storeNest(Select(c, loc.Ref), loc.Idx, v.L[j-loc.Lo])
		x.setComp(st, loc.Fam, loc.RootT, j, Store(c, loc.Ref, inner))
	}
}

// newRef allocates a fresh reference.
func (x *Exec) newRef(st *State, hint string) *Term {
	r := x.c.Fresh("ref_"+hint, SInt)
	st.assume(IntCmp(">", r, st.alloc))
	st.alloc = r
	return r
}

// zero returns the zero Value of T.
func (x *Exec) zero(T types.Type) Value {
	v := Value{T: T}
	for _, l := range x.c.leaves(T) {
		v.L = append(v.L, x.zeroLeaf(l))
	}
	return v
}

func (x *Exec) zeroLeaf(l Leaf) *Term {
	var z *Term
	switch l.Base.K {
	case 'v':
		z = BVLit64(0, l.Base.W)
	case 'b':
		z = False
	case 'i':
		z = IntLit(0)
	case 's':
		z = Var("str.empty", SStr)
	}
	s := l.Base
	for d := 0; d < l.Dims; d++ {
		s = SArr(idxSort, s)
		z = ConstArr(s, z)
	}
	return z
}

// freshValue returns an unconstrained value of type T.
func (x *Exec) freshValue(st *State, hint string, T types.Type) Value {
	v := Value{T: T}
	for _, l := range x.c.leaves(T) {
		t := x.c.Fresh(hint+l.Path, l.S)
		v.L = append(v.L, t)
	}
	x.wellFormed(st, v)
	return v
}

// wellFormed assumes the representation invariants of a value that comes from outside
// (parameters, heap loads, havoc): refs below the allocation counter, slice bounds.
func (x *Exec) wellFormed(st *State, v Value) {
	ls := x.c.leaves(v.T)
	for i, l := range ls {
		if l.Dims > 0 {
			continue
		}
		switch l.Kind {
		case 'r':
			st.assume(IntCmp("<=", v.L[i], st.alloc))
		case 'p':
			st.assume(IntCmp("<=", v.L[i], st.alloc))
		case 't':
			st.assume(IntCmp(">=", v.L[i], IntLit(0)))
		case 'o':
			// slice group: base(i-1) off(i) len(i+1) cap(i+2)
			base, off, ln, cp := v.L[i-1], v.L[i], v.L[i+1], v.L[i+2]
			max := BVLit64(1<<40, 64)
			st.assume(BVCmp("bvule", ln, cp))
			st.assume(BVCmp("bvule", cp, max))
			st.assume(BVCmp("bvule", off, max))
			st.assume(IntCmp(">=", base, IntLit(0)))
			st.assume(Implies(Eq(base, IntLit(0)), Eq(cp, BVLit64(0, 64))))
		case 's':
			st.assume(BVCmp("bvule", Apply("str.len", idxSort, v.L[i]), BVLit64(1<<40, 64)))
		}
	}
}

// ---- helpers on slices ----

type sliceParts struct{ base, off, ln, cp *Term }

func sl(v Value) sliceParts { return sliceParts{v.L[0], v.L[1], v.L[2], v.L[3]} }

func (x *Exec) elemLoc(sv Value, idx *Term) *Loc {
	et := sv.T.Underlying().(*types.Slice).Elem()
	p := sl(sv)
	return &Loc{Fam: "arr:" + x.c.elemFamName(et), RootT: et, Ref: p.base, Idx: []*Term{BVBin("bvadd", p.off, idx)}, Lo: 0, Hi: len(x.c.leaves(et)), T: et}
}

// ptrLoc resolves a pointer value to a location.
func (x *Exec) ptrLoc(v Value) *Loc {
	if v.Loc != nil {
		return v.Loc
	}
	if len(v.L) == 1 && v.L[0] != nil && v.L[0].Op == "const" {
		if l := x.locOf[v.L[0].Name]; l != nil {
			return l
		}
	}
	pt, ok := v.T.Underlying().(*types.Pointer)
	if !ok {
		unsup("ptrLoc on non-pointer %s", v.T)
	}
	et := pt.Elem()
	fam, root, isArr := x.c.famOf(et)
	if isArr {
		// pointer to array object: location of the whole array is not a single Loc of leaves; callers
		// use IndexAddr. Represent as arr-family loc without element index.
		return &Loc{Fam: fam, RootT: root, Ref: v.L[0], Lo: 0, Hi: len(x.c.leaves(root)), T: et}
	}
	return &Loc{Fam: fam, RootT: root, Ref: v.L[0], Lo: 0, Hi: len(x.c.leaves(root)), T: et}
}

// loadLoc loads possibly whole arrays (arr family with no element index).
func (x *Exec) loadAny(st *State, loc *Loc) Value {
	if strings.HasPrefix(loc.Fam, "arr:") && len(loc.Idx) == 0 {
		// whole array object: leaves are the inner arrays
		v := Value{T: loc.T}
		for j := loc.Lo; j < loc.Hi; j++ {
			v.L = append(v.L, Select(x.comp(st, loc.Fam, loc.RootT, j), loc.Ref))
		}
		return v
	}
	return x.load(st, loc)
}

func (x *Exec) storeAny(st *State, loc *Loc, v Value) {
	if strings.HasPrefix(loc.Fam, "arr:") && len(loc.Idx) == 0 {
		for j := loc.Lo; j < loc.Hi; j++ {
			c := x.comp(st, loc.Fam, loc.RootT, j)
			x.setComp(st, loc.Fam, loc.RootT, j, Store(c, loc.Ref, v.L[j-loc.Lo]))
		}
		return
	}
	x.store(st, loc, v)
}

func sortedHeapKeys(m map[string]*Term) []string {
	ks := make([]string, 0, len(m))
	for k := range m {
		ks = append(ks, k)
	}
	sort.Strings(ks)
	return ks
}
