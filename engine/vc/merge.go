package vc

import (
	"fmt"
	"os"
)

// State merging at call returns: the k returning paths of an inlined callee are folded into one state
// whose path condition is  base ∧ (all definitional equalities of all paths) ∧ (g1 ∨ … ∨ gk)  where gi is
// the conjunction of the non-definitional assumptions of path i; values and heap components become
// ite-chains over the gi. Definitional equalities (v = term, v fresh) are total and can be asserted on
// every path.

func (x *Exec) isDef(t *Term) bool {
	if t.Op != "=" || len(t.Args) != 2 || t.Args[0].Op != "const" {
		return false
	}
	d, ok := x.defs[t.Args[0].Name]
	return ok && d == t.Args[1]
}

func (x *Exec) initialHeapSym(key string) *Term {
	pref := "H0_"
	if x.heapPrefix != "" {
		pref = x.heapPrefix
	}
	if hi, ok := x.heapInfo[key]; ok {
		l := x.c.leaves(hi.root)[hi.j]
		return x.c.Named(pref+hi.fam+l.Path, x.c.compSort(hi.fam, hi.root, hi.j))
	}
	if s, ok := x.rawSorts[key]; ok {
		return x.c.Named(pref+key, s)
	}
	return nil
}

func sameLoc(a, b *Loc) bool {
	if a == b {
		return true
	}
	if a == nil || b == nil {
		return false
	}
	if a.Fam != b.Fam || a.Lo != b.Lo || a.Hi != b.Hi || len(a.Idx) != len(b.Idx) || !sameTerm(a.Ref, b.Ref) {
		return false
	}
	for i := range a.Idx {
		if !sameTerm(a.Idx[i], b.Idx[i]) {
			return false
		}
	}
	return true
}

// mergeValues builds the ite-chain of vals under guards; ok=false if shapes are incompatible.
func (x *Exec) mergeValues(guards []*Term, vals []Value) (Value, bool) {
	v0 := vals[0]
	out := Value{T: v0.T, Loc: v0.Loc, Fn: v0.Fn}
	if len(v0.Tup) > 0 {
		for i := range v0.Tup {
			var comp []Value
			for _, v := range vals {
				if len(v.Tup) != len(v0.Tup) {
					return Value{}, false
				}
				comp = append(comp, v.Tup[i])
			}
			m, ok := x.mergeValues(guards, comp)
			if !ok {
				return Value{}, false
			}
			out.Tup = append(out.Tup, m)
		}
		return out, true
	}
	for _, v := range vals[1:] {
		if len(v.L) != len(v0.L) {
			return Value{}, false
		}
		if !sameLoc(v.Loc, out.Loc) {
			out.Loc = nil
		}
		if v.Fn == nil || out.Fn == nil || v.Fn.Fn != out.Fn.Fn || len(v.Fn.Binds) != 0 || len(out.Fn.Binds) != 0 {
			if !(v.Fn == nil && out.Fn == nil) {
				if !(v.Fn != nil && out.Fn != nil && v.Fn == out.Fn) {
					out.Fn = nil
				}
			}
		}
	}
	for i := range v0.L {
		allNil := true
		anyNil := false
		for _, v := range vals {
			if v.L[i] == nil {
				anyNil = true
			} else {
				allNil = false
			}
		}
		if anyNil {
			if allNil && out.Loc != nil {
				out.L = append(out.L, nil)
				continue
			}
			return Value{}, false
		}
		t := vals[len(vals)-1].L[i]
		for k := len(vals) - 2; k >= 0; k-- {
			t = Ite(guards[k], vals[k].L[i], t)
		}
		out.L = append(out.L, t)
	}
	return out, true
}

func (x *Exec) mergeOutcomes(outs []Outcome, base *pcNode) []Outcome {
	var rets, others []Outcome
	for _, o := range outs {
		if o.Kind == OutReturn {
			rets = append(rets, o)
		} else {
			others = append(others, o)
		}
	}
	if len(rets) < 2 {
		return outs
	}
	merged := rets[0].St.clone()
	merged.pc = base
	seen := map[*Term]bool{}
	var guards []*Term
	for _, o := range rets {
		var suffix []*Term
		p := o.St.pc
		for p != nil && p != base {
			suffix = append(suffix, p.t)
			p = p.prev
		}
		if p != base {
			return outs // base is not an ancestor: cannot merge
		}
		var g []*Term
		for i := len(suffix) - 1; i >= 0; i-- {
			t := suffix[i]
			if x.isDef(t) {
				if !seen[t] {
					seen[t] = true
					merged.assume(t)
				}
			} else {
				g = append(g, t)
			}
		}
		guards = append(guards, And(g...))
	}
	if os.Getenv("VCHECK_DEBUG") != "" {
		for i := range guards {
			gs := guards[i].String()
			if len(gs) > 300 {
				gs = gs[:300]
			}
			fmt.Fprintf(os.Stderr, "    [merge guard %d: %s]\n", i, gs)
		}
	}
	for i := range guards {
		guards[i] = x.define(merged, "path", guards[i])
	}
	merged.assume(Or(guards...))
	// results
	n := len(rets[0].Rets)
	var mrets []Value
	for i := 0; i < n; i++ {
		var vals []Value
		for _, o := range rets {
			if len(o.Rets) != n {
				return outs
			}
			vals = append(vals, o.Rets[i])
		}
		m, ok := x.mergeValues(guards, vals)
		if !ok {
			return outs
		}
		mrets = append(mrets, x.defineValue(merged, "mret", m))
	}
	// heap
	keys := map[string]bool{}
	for _, o := range rets {
		for k := range o.St.heap {
			keys[k] = true
		}
	}
	for _, k := range sortedKeys(keys) {
		var ts []*Term
		same := true
		for _, o := range rets {
			t, ok := o.St.heap[k]
			if !ok {
				t = x.initialHeapSym(k)
				if t == nil {
					return outs
				}
			}
			if len(ts) > 0 && t != ts[0] {
				same = false
			}
			ts = append(ts, t)
		}
		if same {
			merged.heap[k] = ts[0]
			continue
		}
		t := ts[len(ts)-1]
		for i := len(ts) - 2; i >= 0; i-- {
			t = Ite(guards[i], ts[i], t)
		}
		v := x.c.Fresh("Hm_"+k, t.S)
		v.Def = t
		merged.assume(Eq(v, t))
		x.defs[v.Name] = t
		merged.heap[k] = v
	}
	// ghost
	gkeys := map[string]bool{}
	for _, o := range rets {
		for k := range o.St.ghost {
			gkeys[k] = true
		}
	}
	for _, k := range sortedKeys(gkeys) {
		var ts []*Term
		for _, o := range rets {
			t, ok := o.St.ghost[k]
			if !ok {
				if t = x.ghostInit(k); t == nil {
					return outs
				}
			}
			ts = append(ts, t)
		}
		t := ts[len(ts)-1]
		for i := len(ts) - 2; i >= 0; i-- {
			t = Ite(guards[i], ts[i], t)
		}
		merged.ghost[k] = t
	}
	// ghost call log: keep entries recorded on every path
	merged.calls = map[string][]Value{}
	for k, v0 := range rets[0].St.calls {
		all := true
		for _, o := range rets[1:] {
			if v, ok := o.St.calls[k]; !ok || len(v) != len(v0) {
				all = false
			}
		}
		if !all {
			continue
		}
		var margs []Value
		okAll := true
		for i := range v0 {
			var vals []Value
			for _, o := range rets {
				vals = append(vals, o.St.calls[k][i])
			}
			m, ok := x.mergeValues(guards, vals)
			if !ok {
				okAll = false
				break
			}
			margs = append(margs, m)
		}
		if okAll {
			merged.calls[k] = margs
		}
	}
	// allocation counter
	a := rets[len(rets)-1].St.alloc
	for i := len(rets) - 2; i >= 0; i-- {
		a = Ite(guards[i], rets[i].St.alloc, a)
	}
	merged.alloc = x.define(merged, "alloc", a)
	merged.dry = rets[0].St.dry
	merged.written = rets[0].St.written
	merged.depth = rets[0].St.depth
	return append([]Outcome{{St: merged, Rets: mrets, Kind: OutReturn}}, others...)
}
