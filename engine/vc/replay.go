package vc

import (
	"context"
	"encoding/json"
	"fmt"
	"go/types"
	"math/big"
	"os"
	"os/exec"
	"path/filepath"
	"regexp"
	"strings"
	"time"

	"golang.org/x/tools/go/ssa"
)

type ReplayResult struct {
	Confirmed bool     `json:"confirmed"`
	Why       string   `json:"why"`
	Inputs    []string `json:"inputs,omitempty"`
	TestFile  string   `json:"test_file,omitempty"`
	TestSrc   string   `json:"test_source,omitempty"`
	Cmd       string   `json:"cmd,omitempty"`
	Output    string   `json:"output,omitempty"`
}

// vnode is a tree of model queries for one input value.
type vnode struct {
	T      types.Type
	Kind   string // scalar, slice, array, struct, ptr, string, iface, unsupported
	Term   *Term
	Len    *vnode
	Ref    *vnode
	Fields []*vnode
	Elems  []*vnode
	Note   string
	qid    int
}

const replayMaxElems = 24

type replayer struct {
	x       *Exec
	st      *State // entry state (initial heap)
	q       []*Term
	imports map[string]string
	pkg     *types.Package
	vals    []string
}

func (r *replayer) ask(t *Term) int {
	r.q = append(r.q, t)
	return len(r.q) - 1
}

func (r *replayer) build(T types.Type, ls []*Term, depth int) *vnode {
	x := r.x
	n := &vnode{T: T}
	switch u := T.Underlying().(type) {
	case *types.Basic:
		if isString(T) {
			n.Kind = "string"
			n.Len = &vnode{Kind: "scalar", qid: r.ask(Apply("str.len", idxSort, ls[0]))}
			for k := 0; k < replayMaxElems; k++ {
				n.Elems = append(n.Elems, &vnode{Kind: "scalar", qid: r.ask(Apply("str.at", SBV(8), ls[0], BVLit64(int64(k), 64)))})
			}
			return n
		}
		n.Kind = "scalar"
		n.qid = r.ask(ls[0])
		return n
	case *types.Slice:
		n.Kind = "slice"
		n.Ref = &vnode{Kind: "scalar", qid: r.ask(ls[0])}
		n.Len = &vnode{Kind: "scalar", qid: r.ask(ls[2])}
		if depth > 3 {
			n.Kind = "unsupported"
			n.Note = "too deep"
			return n
		}
		et := u.Elem()
		fam := "arr:" + x.c.elemFamName(et)
		for k := 0; k < replayMaxElems; k++ {
			loc := &Loc{Fam: fam, RootT: et, Ref: ls[0], Idx: []*Term{BVBin("bvadd", ls[1], BVLit64(int64(k), 64))}, Lo: 0, Hi: len(x.c.leaves(et)), T: et}
			ev := x.load(r.st, loc)
			n.Elems = append(n.Elems, r.build(et, ev.L, depth+1))
		}
		return n
	case *types.Array:
		n.Kind = "array"
		if u.Len() > 64 {
			n.Kind = "unsupported"
			n.Note = "array too long"
			return n
		}
		for k := int64(0); k < u.Len(); k++ {
			var els []*Term
			for _, l := range ls {
				els = append(els, Select(l, BVLit64(k, 64)))
			}
			n.Elems = append(n.Elems, r.build(u.Elem(), els, depth+1))
		}
		return n
	case *types.Struct:
		n.Kind = "struct"
		off := 0
		for i := 0; i < u.NumFields(); i++ {
			k := len(x.c.leaves(u.Field(i).Type()))
			n.Fields = append(n.Fields, r.build(u.Field(i).Type(), ls[off:off+k], depth+1))
			off += k
		}
		return n
	case *types.Pointer:
		n.Kind = "ptr"
		n.Ref = &vnode{Kind: "scalar", qid: r.ask(ls[0])}
		if depth > 2 {
			n.Note = "pointee not expanded"
			return n
		}
		et := u.Elem()
		if _, isArr := et.Underlying().(*types.Array); isArr {
			n.Kind = "unsupported"
			n.Note = "pointer to array"
			return n
		}
		loc := x.ptrLoc(Value{T: T, L: ls})
		pv := x.load(r.st, loc)
		n.Fields = []*vnode{r.build(et, pv.L, depth+1)}
		return n
	case *types.Interface:
		n.Kind = "iface"
		n.Ref = &vnode{Kind: "scalar", qid: r.ask(ls[0])}
		n.Len = &vnode{Kind: "scalar", qid: r.ask(ls[1])}
		return n
	}
	n.Kind = "unsupported"
	n.Note = T.String()
	return n
}

var bvRe = regexp.MustCompile(`^\(_ bv(\d+) (\d+)\)$`)

func parseSMTValue(s string) (*big.Int, bool) {
	s = strings.TrimSpace(s)
	switch {
	case s == "true":
		return big.NewInt(1), true
	case s == "false":
		return big.NewInt(0), true
	case strings.HasPrefix(s, "#x"):
		v, ok := new(big.Int).SetString(s[2:], 16)
		return v, ok
	case strings.HasPrefix(s, "#b"):
		v, ok := new(big.Int).SetString(s[2:], 2)
		return v, ok
	case strings.HasPrefix(s, "(- "):
		v, ok := new(big.Int).SetString(strings.TrimSuffix(s[3:], ")"), 10)
		if ok {
			v.Neg(v)
		}
		return v, ok
	}
	if m := bvRe.FindStringSubmatch(s); m != nil {
		v, ok := new(big.Int).SetString(m[1], 10)
		return v, ok
	}
	v, ok := new(big.Int).SetString(s, 10)
	return v, ok
}

func (r *replayer) val(n *vnode) *big.Int {
	if n == nil || n.qid >= len(r.vals) {
		return big.NewInt(0)
	}
	v, ok := parseSMTValue(r.vals[n.qid])
	if !ok {
		return big.NewInt(0)
	}
	return v
}

func (r *replayer) typeStr(T types.Type) string {
	return types.TypeString(T, func(p *types.Package) string {
		if p == r.pkg {
			return ""
		}
		r.imports[p.Path()] = p.Name()
		return p.Name()
	})
}

// render produces a Go expression for the model value of n.
func (r *replayer) render(n *vnode) (string, error) {
	switch n.Kind {
	case "scalar":
		v := r.val(n)
		b := n.T.Underlying().(*types.Basic)
		if b.Info()&types.IsBoolean != 0 {
			if v.Sign() != 0 {
				return "true", nil
			}
			return "false", nil
		}
		if w, s, ok := basicWidth(b); ok {
			if s {
				v = toSigned(v, w)
			}
			return fmt.Sprintf("%s(%s)", r.typeStr(n.T), v.String()), nil
		}
		if b.Info()&types.IsFloat != 0 {
			return fmt.Sprintf("%s(0)", r.typeStr(n.T)), nil
		}
		return "", fmt.Errorf("scalar type %s", n.T)
	case "string":
		ln := r.val(n.Len).Int64()
		if ln > int64(len(n.Elems)) {
			return "", fmt.Errorf("string of length %d too long to replay", ln)
		}
		bs := make([]byte, ln)
		for i := range bs {
			bs[i] = byte(r.val(n.Elems[i]).Int64())
		}
		return fmt.Sprintf("%s(%q)", r.typeStr(n.T), string(bs)), nil
	case "slice":
		if r.val(n.Ref).Sign() == 0 {
			return fmt.Sprintf("%s(nil)", r.typeStr(n.T)), nil
		}
		ln := r.val(n.Len).Int64()
		if ln > int64(len(n.Elems)) {
			return "", fmt.Errorf("slice of length %d too long to replay", ln)
		}
		var parts []string
		for i := int64(0); i < ln; i++ {
			s, err := r.render(n.Elems[i])
			if err != nil {
				return "", err
			}
			parts = append(parts, s)
		}
		return fmt.Sprintf("%s{%s}", r.typeStr(n.T), strings.Join(parts, ", ")), nil
	case "array":
		var parts []string
		for _, e := range n.Elems {
			s, err := r.render(e)
			if err != nil {
				return "", err
			}
			parts = append(parts, s)
		}
		return fmt.Sprintf("%s{%s}", r.typeStr(n.T), strings.Join(parts, ", ")), nil
	case "struct":
		st := n.T.Underlying().(*types.Struct)
		var parts []string
		for i, f := range n.Fields {
			fld := st.Field(i)
			if !fld.Exported() && fld.Pkg() != r.pkg {
				continue // cannot set foreign unexported fields; left zero
			}
			s, err := r.render(f)
			if err != nil {
				return "", err
			}
			parts = append(parts, fld.Name()+": "+s)
		}
		return fmt.Sprintf("%s{%s}", r.typeStr(n.T), strings.Join(parts, ", ")), nil
	case "ptr":
		if r.val(n.Ref).Sign() == 0 || len(n.Fields) == 0 {
			return fmt.Sprintf("(%s)(nil)", r.typeStr(n.T)), nil
		}
		et := n.T.Underlying().(*types.Pointer).Elem()
		s, err := r.render(n.Fields[0])
		if err != nil {
			return "", err
		}
		if _, ok := et.Underlying().(*types.Struct); ok {
			return "&" + s, nil
		}
		return fmt.Sprintf("func() %s { v := %s; return &v }()", r.typeStr(n.T), s), nil
	case "bytesreader":
		// *bytes.Reader{s, i, prevRune}: reconstruct through the public constructor
		pn := n.Fields[0]
		if len(pn.Fields) == 0 {
			return "", fmt.Errorf("bytes.Reader pointee not expanded")
		}
		st := pn.Fields[0]
		s, err := r.render(st.Fields[0])
		if err != nil {
			return "", err
		}
		i := toSigned(r.val(st.Fields[1]), 64)
		r.imports["bytes"] = "bytes"
		return fmt.Sprintf("func() *bytes.Reader { rd := bytes.NewReader(%s); rd.Seek(%s, 0); return rd }()", s, i.String()), nil
	case "iface":
		if r.val(n.Ref).Sign() == 0 {
			return "nil", nil
		}
		return "", fmt.Errorf("interface-typed input of unknown dynamic type")
	}
	return "", fmt.Errorf("input of type %s not replayable (%s)", n.T, n.Note)
}

// TryReplay turns the solver model of a failed obligation into a Go test run against the real code.
// TryReplay replays the counterexample of a failed obligation against the real code. If the model of the
// modular VC (callees by contract) does not reproduce, the function is re-executed with callee bodies
// inlined in place of their contracts, which ties the callees' results to the concrete input.
func TryReplay(l *Loaded, e *Engine, fr *FuncResult, r *OblResult, prop string) *ReplayResult {
	res := tryReplayOnce(l, e, fr, r, prop)
	if res.Confirmed || len(fr.Exec.usedContracts) == 0 {
		return res
	}
	e2 := *e
	e2.PreferInline = true
	fn := fr.Exec.top
	fr2 := e2.GenVCs(fn, e.Contracts[contractKey(fn)])
	for _, ob := range fr2.Obligations {
		if ob.Name() == r.Name {
			res2 := tryReplayOnce(l, &e2, fr2, r, prop)
			res2.Why = "[callee bodies inlined for replay] " + res2.Why
			if res2.Confirmed || res.TestSrc == "" {
				return res2
			}
		}
	}
	return res
}

func tryReplayOnce(l *Loaded, e *Engine, fr *FuncResult, r *OblResult, prop string) (res *ReplayResult) {
	res = &ReplayResult{}
	defer func() {
		if p := recover(); p != nil {
			res.Why = fmt.Sprintf("replay generation failed: %v", p)
		}
	}()
	x := fr.Exec
	fn := x.top
	fpkg := fn.Pkg
	if fpkg == nil && fn.Origin() != nil && len(fn.TypeArgs()) > 0 {
		// instance of a generic function: replayed through the generic function with explicit type arguments
		fpkg = fn.Origin().Pkg
	}
	if fpkg == nil || fn.Parent() != nil {
		res.Why = "function is a closure or synthetic: no replay entry point"
		return res
	}
	rp := &replayer{x: x, imports: map[string]string{}, pkg: fpkg.Pkg}
	st := &State{heap: map[string]*Term{}, ghost: map[string]*Term{}, alloc: x.c.Named("alloc0", SInt)}
	rp.st = st
	var nodes []*vnode
	topFC := e.Contracts[contractKey(fn)]
	for _, p := range fr.ParamTerms {
		if topFC != nil && topFC.Dyn[p.Name] != "" {
			// interface parameter with a declared dynamic type
			if dt := x.lookupType(topFC.Dyn[p.Name]); dt != nil && typeName(dt) == "*bytes.Reader" {
				n := &vnode{T: p.T, Kind: "bytesreader"}
				pv := rp.build(dt, []*Term{p.V.L[1]}, 0)
				n.Fields = []*vnode{pv}
				nodes = append(nodes, n)
				continue
			}
		}
		nodes = append(nodes, rp.build(p.T, p.V.L, 0))
	}
	// re-solve the failing instance with the query terms named
	var o *Obligation
	for _, ob := range fr.Obligations {
		if ob.Name() == r.Name {
			o = ob
		}
	}
	if o == nil {
		res.Why = "obligation not found"
		return res
	}
	var vals []string
	found := false
	for _, bound := range []int64{4, 16, replayMaxElems, -1} {
		for _, in := range o.Insts {
			if in.Goal.IsTrue() {
				continue
			}
			extra := append([]*Term{}, st.pcList()...)
			// small-model constraints: all queried lengths bounded
			if bound >= 0 {
				var walk func(n *vnode)
				walk = func(n *vnode) {
					if n == nil {
						return
					}
					if (n.Kind == "slice" || n.Kind == "string") && n.Len != nil {
						extra = append(extra, BVCmp("bvule", rp.q[n.Len.qid], BVLit64(bound, 64)))
					}
					for _, f := range n.Fields {
						walk(f)
					}
					for _, f := range n.Elems {
						walk(f)
					}
				}
				for _, n := range nodes {
					walk(n)
				}
			}
			pcs := append(pcTerms(in.PC), extra...)
			var names []*Term
			for i, q := range rp.q {
				v := x.c.Named(fmt.Sprintf("qv!%d", i), q.S)
				names = append(names, v)
				pcs = append(pcs, Eq(v, q))
			}
			script := x.buildQuery([][]*Term{pcs}, []*Term{in.Goal}, false, names)
			qr := RunSolver(context.Background(), Solvers[0], script, 20)
			if qr.Verdict != VSat {
				continue
			}
			vals = parseGetValue(qr.Model, len(names))
			if vals != nil {
				found = true
				break
			}
		}
		if found {
			break
		}
	}
	if !found {
		res.Why = "could not obtain a (small) model for the inputs"
		return res
	}
	rp.vals = vals
	var args []string
	for i, n := range nodes {
		s, err := rp.render(n)
		if err != nil {
			res.Why = fmt.Sprintf("input %s: %v", fr.ParamTerms[i].Name, err)
			return res
		}
		args = append(args, s)
		res.Inputs = append(res.Inputs, fr.ParamTerms[i].Name+" = "+s)
	}
	src, postChecked := rp.testSource(fn, fr, o, args, e)
	res.TestSrc = src
	work := filepath.Join(VerifDir, ".work", "replay")
	os.MkdirAll(work, 0o755)
	tf := filepath.Join(work, safeFile(prop+"_"+r.Name)+"_test.go")
	os.WriteFile(tf, []byte(src), 0o644)
	res.TestFile = tf
	pkgDir := filepath.Dir(l.Fset.Position(fn.Pos()).Filename)
	target := filepath.Join(pkgDir, "zz_verif_replay_test.go")
	ov, _ := json.Marshal(map[string]any{"Replace": map[string]string{target: tf}})
	ovf := tf + ".overlay.json"
	os.WriteFile(ovf, ov, 0o644)
	rel, _ := filepath.Rel(RepoDir, pkgDir)
	cmdline := []string{"go", "test", "-tags", "verif", "-overlay", ovf, "-vet=off", "-count=1", "-v", "-timeout", "60s", "-run", "^TestVerifReplay$", "./" + rel}
	res.Cmd = strings.Join(cmdline, " ")
	ctx, cancel := context.WithTimeout(context.Background(), 240*time.Second)
	defer cancel()
	cmd := exec.CommandContext(ctx, cmdline[0], cmdline[1:]...)
	cmd.Dir = RepoDir
	cmd.Env = append(os.Environ(), "GOFLAGS=-mod=mod", "GOPROXY=off", "GOSUMDB=off", "GOTOOLCHAIN=local")
	out, _ := cmd.CombinedOutput()
	res.Output = string(out)
	if len(res.Output) > 4000 {
		res.Output = res.Output[:4000]
	}
	panicked := strings.Contains(string(out), "VERIF-REPLAY: panic")
	postFalse := ""
	for _, ln := range strings.Split(string(out), "\n") {
		if strings.HasPrefix(strings.TrimSpace(ln), "VERIF-REPLAY: post[") && strings.HasSuffix(strings.TrimSpace(ln), "=false") {
			postFalse = strings.TrimSpace(ln)
		}
	}
	ran := strings.Contains(string(out), "VERIF-REPLAY:")
	switch {
	case !ran:
		res.Why = "replay test did not run (build failure or timeout)"
	case panicKinds[o.Kind]:
		res.Confirmed = panicked
		if panicked {
			res.Why = "the real function panics on the solver's input"
		} else {
			res.Why = "the real function did not panic on the solver's input (model spurious w.r.t. abstracted callees)"
		}
	case postFalse != "":
		res.Confirmed = true
		res.Why = "a postcondition of the contract is false on the real function's result: " + postFalse
	case panicked && x.noPanic:
		res.Confirmed = true
		res.Why = "the real function panics on the solver's input"
	case postChecked:
		res.Why = "the contract's executable postconditions held on the real function's result for this input"
	default:
		res.Why = "obligation kind " + o.Kind + " has no executable oracle; inputs replayed only"
	}
	return res
}

func parseGetValue(s string, n int) []string {
	// ((qv!0 v0) (qv!1 v1) ...)
	vals := make([]string, n)
	got := 0
	for i := 0; i < n; i++ {
		key := fmt.Sprintf("(qv!%d ", i)
		j := strings.Index(s, key)
		if j < 0 {
			return nil
		}
		k := j + len(key)
		// value extends to the matching close paren
		depth := 0
		end := k
		for end < len(s) {
			if s[end] == '(' {
				depth++
			} else if s[end] == ')' {
				if depth == 0 {
					break
				}
				depth--
			}
			end++
		}
		vals[i] = strings.TrimSpace(s[k:end])
		got++
	}
	if got != n {
		return nil
	}
	return vals
}

func (rp *replayer) testSource(fn *ssa.Function, fr *FuncResult, o *Obligation, args []string, e *Engine) (string, bool) {
	var sb strings.Builder
	var body strings.Builder
	sig := fn.Signature
	var pnames []string
	for i, p := range fr.ParamTerms {
		n := fmt.Sprintf("p%d", i)
		pnames = append(pnames, n)
		fmt.Fprintf(&body, "\tvar %s %s = %s\n", n, rp.typeStr(p.T), args[i])
	}
	call := ""
	callArgs := pnames
	fname := fn.Name()
	if o := fn.Origin(); o != nil && len(fn.TypeArgs()) > 0 {
		fname = o.Name()
		if sig.Recv() == nil {
			var tas []string
			for _, ta := range fn.TypeArgs() {
				tas = append(tas, rp.typeStr(ta))
			}
			fname += "[" + strings.Join(tas, ", ") + "]"
		}
	}
	if sig.Recv() != nil {
		call = "(" + pnames[0] + ")." + fname
		callArgs = pnames[1:]
	} else {
		call = fname
	}
	// variadic
	ca := strings.Join(callArgs, ", ")
	if sig.Variadic() && len(callArgs) > 0 {
		ca += "..."
	}
	// postcondition translation: every translatable ensures clause of the function is an oracle
	postChecked := false
	type pe struct{ label, expr string }
	var posts []pe
	if fc := e.Contracts[contractKey(fn)]; fc != nil {
		tr := &goTranslator{rp: rp, fn: fn, params: map[string]string{}, results: map[string]string{}, specs: e.Specs}
		for i, p := range fr.ParamTerms {
			tr.params[p.Name] = pnames[i]
		}
		for i := 0; i < sig.Results().Len(); i++ {
			rn := fmt.Sprintf("r%d", i)
			if n := sig.Results().At(i).Name(); n != "" && n != "_" {
				tr.results[n] = rn
			}
			tr.results[fmt.Sprintf("result%d", i)] = rn
			if sig.Results().Len() == 1 {
				tr.results["result"] = rn
			}
		}
		for _, en := range fc.Ensures {
			nOld := len(tr.olds)
			s, err := tr.expr(en.Expr)
			if err == nil {
				posts = append(posts, pe{en.Label, s})
				if o.Kind != "post" || en.Label == o.Label {
					postChecked = true
				}
			} else {
				tr.olds = tr.olds[:nOld]
				fmt.Fprintf(&body, "\t// ensures [%s] not translatable to Go: %v\n", en.Label, err)
			}
		}
		for i, oe := range tr.olds {
			fmt.Fprintf(&body, "\told%d := verifCopy(%s)\n", i, oe)
		}
	}
	var rs []string
	for i := 0; i < sig.Results().Len(); i++ {
		rs = append(rs, fmt.Sprintf("r%d", i))
	}
	if len(rs) > 0 {
		fmt.Fprintf(&body, "\t%s := %s(%s)\n", strings.Join(rs, ", "), call, ca)
		for _, r := range rs {
			fmt.Fprintf(&body, "\t_ = %s\n", r)
		}
		fmt.Fprintf(&body, "\tfmt.Printf(\"VERIF-REPLAY: returned %s\\n\", %s)\n", strings.Repeat("%#v ", len(rs)), strings.Join(rs, ", "))
	} else {
		fmt.Fprintf(&body, "\t%s(%s)\n\tfmt.Println(\"VERIF-REPLAY: returned\")\n", call, ca)
	}
	for _, p := range posts {
		fmt.Fprintf(&body, "\tfmt.Printf(\"VERIF-REPLAY: post[%s]=%%v\\n\", %s)\n", p.label, p.expr)
	}
	fmt.Fprintf(&sb, "package %s\n\nimport (\n\t\"fmt\"\n\t\"reflect\"\n\t\"testing\"\n", rp.pkg.Name())
	for path, name := range rp.imports {
		if path == "fmt" || path == "reflect" || path == "testing" {
			continue
		}
		fmt.Fprintf(&sb, "\t%s %q\n", name, path)
	}
	sb.WriteString(")\n\n")
	sb.WriteString("// Generated by /verif: replays the solver's counterexample for obligation\n// " + o.Name() + "\n")
	sb.WriteString("func verifCopy[T any](v T) T {\n\trv := reflect.ValueOf(v)\n\tif rv.IsValid() && rv.Kind() == reflect.Slice && !rv.IsNil() {\n\t\tc := reflect.MakeSlice(rv.Type(), rv.Len(), rv.Len())\n\t\treflect.Copy(c, rv)\n\t\treturn c.Interface().(T)\n\t}\n\treturn v\n}\n\n")
	sb.WriteString("func TestVerifReplay(t *testing.T) {\n\t_ = reflect.TypeOf\n\tdefer func() {\n\t\tif r := recover(); r != nil {\n\t\t\tfmt.Printf(\"VERIF-REPLAY: panic: %v\\n\", r)\n\t\t}\n\t}()\n")
	sb.WriteString(body.String())
	sb.WriteString("}\n")
	return sb.String(), postChecked
}

// ---------- contract expression -> Go ----------

type goTranslator struct {
	rp      *replayer
	fn      *ssa.Function
	params  map[string]string
	results map[string]string
	bound   map[string]string
	olds    []string
	specs   *SpecEnv
	inOld   bool
	depth   int
}

func (t *goTranslator) expr(e Expr) (string, error) {
	switch n := e.(type) {
	case *ELit:
		switch n.Kind {
		case "int", "bool":
			return n.Text, nil
		case "nil":
			return "nil", nil
		case "string":
			return fmt.Sprintf("%q", n.Text), nil
		}
	case *EIdent:
		if s, ok := t.bound[n.Name]; ok {
			return s, nil
		}
		if s, ok := t.params[n.Name]; ok {
			return s, nil
		}
		if s, ok := t.results[n.Name]; ok {
			if t.inOld {
				return "", fmt.Errorf("result inside old()")
			}
			return s, nil
		}
		if t.rp.pkg != nil && t.rp.pkg.Scope().Lookup(n.Name) != nil {
			return n.Name, nil
		}
		return "", fmt.Errorf("identifier %s is not visible to a test", n.Name)
	case *EUn:
		s, err := t.expr(n.X)
		if err != nil {
			return "", err
		}
		return "(" + n.Op + s + ")", nil
	case *EBin:
		a, err := t.expr(n.X)
		if err != nil {
			return "", err
		}
		b, err := t.expr(n.Y)
		if err != nil {
			return "", err
		}
		switch n.Op {
		case "==>":
			return "(!(" + a + ") || (" + b + "))", nil
		case "<==>":
			return "((" + a + ") == (" + b + "))", nil
		}
		return "(" + a + " " + n.Op + " " + b + ")", nil
	case *ESel:
		s, err := t.expr(n.X)
		if err != nil {
			return "", err
		}
		return s + "." + n.Name, nil
	case *EIndex:
		s, err := t.expr(n.X)
		if err != nil {
			return "", err
		}
		i, err := t.expr(n.I)
		if err != nil {
			return "", err
		}
		return s + "[" + i + "]", nil
	case *ESlice:
		s, err := t.expr(n.X)
		if err != nil {
			return "", err
		}
		lo, hi := "", ""
		if n.Lo != nil {
			if lo, err = t.expr(n.Lo); err != nil {
				return "", err
			}
		}
		if n.Hi != nil {
			if hi, err = t.expr(n.Hi); err != nil {
				return "", err
			}
		}
		return s + "[" + lo + ":" + hi + "]", nil
	case *ECall:
		switch n.Fun {
		case "old":
			if t.inOld {
				return t.expr(n.Args[0])
			}
			t.inOld = true
			s, err := t.expr(n.Args[0])
			t.inOld = false
			if err != nil {
				return "", err
			}
			t.olds = append(t.olds, s)
			return fmt.Sprintf("old%d", len(t.olds)-1), nil
		case "ite":
			c, e1 := t.expr(n.Args[0])
			a, e2 := t.expr(n.Args[1])
			b, e3 := t.expr(n.Args[2])
			if e1 != nil || e2 != nil || e3 != nil {
				return "", fmt.Errorf("ite")
			}
			return fmt.Sprintf("func() any { if %s { return %s }; return %s }()", c, a, b), fmt.Errorf("ite not supported in replay")
		case "iserr":
			s, err := t.expr(n.Args[0])
			return "(" + s + " != nil)", err
		case "isnil":
			s, err := t.expr(n.Args[0])
			return "(" + s + " == nil)", err
		case "typeis":
			a, e1 := t.expr(n.Args[0])
			lit, ok := n.Args[1].(*ELit)
			if e1 != nil || !ok {
				return "", fmt.Errorf("typeis args")
			}
			T := t.rp.x.specType(&specScope{x: t.rp.x, fr: &Frame{fn: t.fn}}, lit.Text)
			if T == nil {
				return "", fmt.Errorf("typeis: unknown type %s", lit.Text)
			}
			return fmt.Sprintf("func() bool { _, ok := any(%s).(%s); return ok }()", a, t.rp.typeStr(T)), nil
		case "bytesEq":
			a, e1 := t.expr(n.Args[0])
			b, e2 := t.expr(n.Args[1])
			if e1 != nil || e2 != nil {
				return "", fmt.Errorf("bytesEq args")
			}
			return fmt.Sprintf("(string(%s) == string(%s))", a, b), nil
		}
		if t.specs != nil {
			if sf, ok := t.specs.Funcs[n.Fun]; ok {
				if t.depth > 20 {
					return "", fmt.Errorf("recursive spec function")
				}
				nt := *t
				nt.bound = map[string]string{}
				for k, v := range t.bound {
					nt.bound[k] = v
				}
				for i, p := range sf.Params {
					a, err := t.expr(n.Args[i])
					if err != nil {
						return "", err
					}
					pt := p.Type
					if nt.rp.x.basicType(pt) != nil {
						a = pt + "(" + a + ")"
					}
					nt.bound[p.Name] = "(" + a + ")"
				}
				nt.depth++
				s, err := nt.expr(sf.Body)
				t.olds = nt.olds
				return s, err
			}
		}
		var as []string
		for _, a := range n.Args {
			s, err := t.expr(a)
			if err != nil {
				return "", err
			}
			as = append(as, s)
		}
		switch n.Fun {
		case "len", "cap", "int", "int8", "int16", "int32", "int64", "uint", "uint8", "uint16", "uint32", "uint64", "byte", "uintptr":
			return n.Fun + "(" + strings.Join(as, ", ") + ")", nil
		}
		if t.rp.pkg != nil {
			if o := t.rp.pkg.Scope().Lookup(n.Fun); o != nil {
				if _, ok := o.(*types.TypeName); ok {
					return n.Fun + "(" + strings.Join(as, ", ") + ")", nil
				}
			}
		}
		return "", fmt.Errorf("function %s has no Go translation", n.Fun)
	case *EQuant:
		if len(n.Vars) != 1 {
			return "", fmt.Errorf("multi-variable quantifier")
		}
		v := n.Vars[0]
		imp, ok := n.Body.(*EBin)
		if !ok || (imp.Op != "==>" && n.Q == "forall") || (imp.Op != "&&" && n.Q == "exists") {
			return "", fmt.Errorf("quantifier body must be range ==> prop")
		}
		rng, prop := imp.X, imp.Y
		var lo, hi Expr
		hiIncl := false
		var conj []Expr
		var flat func(e Expr)
		flat = func(e Expr) {
			if b, ok := e.(*EBin); ok && b.Op == "&&" {
				flat(b.X)
				flat(b.Y)
				return
			}
			conj = append(conj, e)
		}
		flat(rng)
		var rest []Expr
		for _, c := range conj {
			b, ok := c.(*EBin)
			if ok {
				if id, isId := b.Y.(*EIdent); isId && id.Name == v.Name && b.Op == "<=" && lo == nil {
					lo = b.X
					continue
				}
				if id, isId := b.X.(*EIdent); isId && id.Name == v.Name && (b.Op == "<" || b.Op == "<=") && hi == nil {
					hi = b.Y
					hiIncl = b.Op == "<="
					continue
				}
			}
			rest = append(rest, c)
		}
		if lo == nil || hi == nil {
			return "", fmt.Errorf("quantifier without explicit bounds")
		}
		nt := *t
		nt.bound = map[string]string{}
		for k, vv := range t.bound {
			nt.bound[k] = vv
		}
		nt.bound[v.Name] = v.Name
		los, e1 := nt.expr(lo)
		his, e2 := nt.expr(hi)
		ps, e3 := nt.expr(prop)
		if e1 != nil || e2 != nil || e3 != nil {
			return "", fmt.Errorf("quantifier parts not translatable")
		}
		cond := "true"
		for _, c := range rest {
			cs, err := nt.expr(c)
			if err != nil {
				return "", err
			}
			cond += " && " + cs
		}
		t.olds = nt.olds
		cmp := "<"
		if hiIncl {
			cmp = "<="
		}
		if n.Q == "forall" {
			return fmt.Sprintf("func() bool { for %s := %s(%s); %s %s %s(%s); %s++ { if (%s) && !(%s) { return false } }; return true }()", v.Name, v.Type, los, v.Name, cmp, v.Type, his, v.Name, cond, ps), nil
		}
		return fmt.Sprintf("func() bool { for %s := %s(%s); %s %s %s(%s); %s++ { if (%s) && (%s) { return true } }; return false }()", v.Name, v.Type, los, v.Name, cmp, v.Type, his, v.Name, cond, ps), nil
	}
	return "", fmt.Errorf("expression %T not translatable", e)
}
