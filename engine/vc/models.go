package vc

import (
	"go/token"
	"go/types"
	"strings"

	"golang.org/x/tools/go/ssa"
)

// Packages whose functions are treated as having no effect on the verified state (logging, metrics).
var noEffectPkgs = []string{
	"github.com/ChainSafe/gossamer/internal/log",
	"github.com/prometheus/",
	"github.com/ChainSafe/gossamer/dot/telemetry",
	"github.com/ChainSafe/gossamer/internal/metrics",
	"log",
}

func isNoEffect(fn *ssa.Function) bool {
	p := ""
	if fn.Pkg != nil {
		p = fn.Pkg.Pkg.Path()
	} else if o := fn.Origin(); o != nil && o.Pkg != nil {
		p = o.Pkg.Pkg.Path()
	} else if fn.Signature.Recv() != nil {
		// method of a type in another package (wrapper); use the receiver's package
		t := fn.Signature.Recv().Type()
		if pt, ok := t.(*types.Pointer); ok {
			t = pt.Elem()
		}
		if n, ok := t.(*types.Named); ok && n.Obj().Pkg() != nil {
			p = n.Obj().Pkg().Path()
		}
	}
	for _, pre := range noEffectPkgs {
		if p == pre || strings.HasPrefix(p, pre) {
			return true
		}
	}
	return false
}

var errPseudoType = types.NewPointer(types.NewNamed(types.NewTypeName(token.NoPos, nil, "errorValue", nil), types.NewStruct(nil, nil), nil))

func (x *Exec) freshError(st *State, T types.Type) Value {
	ref := x.newRef(st, "err")
	return Value{T: T, L: []*Term{IntLit(int64(x.c.typeTag(errPseudoType))), ref}}
}

func retOne(st *State, v Value) []Outcome { return []Outcome{{St: st, Kind: OutReturn, Rets: []Value{v}}} }

func sigResult(fr *Frame, name string, x *Exec, i int) types.Type { return nil }

// DefaultModels returns the built-in library models.
func DefaultModels() map[string]Model {
	m := map[string]Model{}
	errT := types.Universe.Lookup("error").Type()
	m["fmt.Errorf"] = func(x *Exec, fr *Frame, st *State, args []Value, pos token.Pos) []Outcome {
		return retOne(st, x.freshError(st, errT))
	}
	m["errors.New"] = m["fmt.Errorf"]
	m["errors.Join"] = func(x *Exec, fr *Frame, st *State, args []Value, pos token.Pos) []Outcome {
		return retOne(st, x.freshValue(st, "joined", errT))
	}
	strT := types.Typ[types.String]
	for _, n := range []string{"fmt.Sprintf", "fmt.Sprint", "fmt.Sprintln"} {
		m[n] = func(x *Exec, fr *Frame, st *State, args []Value, pos token.Pos) []Outcome {
			return retOne(st, x.freshValue(st, "sprintf", strT))
		}
	}
	for _, n := range []string{"fmt.Println", "fmt.Printf", "fmt.Print", "fmt.Fprintf", "fmt.Fprintln"} {
		m[n] = func(x *Exec, fr *Frame, st *State, args []Value, pos token.Pos) []Outcome {
			return []Outcome{{St: st, Kind: OutReturn, Rets: []Value{x.freshValue(st, "n", tInt), x.freshValue(st, "err", errT)}}}
		}
	}
	m["errors.Is"] = func(x *Exec, fr *Frame, st *State, args []Value, pos token.Pos) []Outcome {
		b := x.c.Fresh("errors_is", SBool)
		e, t := args[0], args[1]
		same := And(Eq(e.L[0], t.L[0]), Eq(e.L[1], t.L[1]))
		st.assume(Implies(And(same, Not(Eq(e.L[0], IntLit(0)))), b))
		st.assume(Implies(And(Eq(e.L[0], IntLit(0)), Not(Eq(t.L[0], IntLit(0)))), Not(b)))
		return retOne(st, boolV(b))
	}
	m["bytes.Equal"] = func(x *Exec, fr *Frame, st *State, args []Value, pos token.Pos) []Outcome {
		return retOne(st, boolV(x.bytesEqual(st, args[0], args[1])))
	}
	m["bytes.HasPrefix"] = func(x *Exec, fr *Frame, st *State, args []Value, pos token.Pos) []Outcome {
		s, p := args[0], args[1]
		sp, pp := sl(s), sl(p)
		pre := Value{T: s.T, L: []*Term{sp.base, sp.off, pp.ln, pp.ln}}
		r := And(BVCmp("bvule", pp.ln, sp.ln), x.bytesEqual(st, pre, p))
		return retOne(st, boolV(x.define(st, "hasprefix", r)))
	}
	return m
}

// bytesEqual returns a Bool term equivalent to bytes.Equal(a, b).
func (x *Exec) bytesEqual(st *State, a, b Value) *Term {
	ap, bp := sl(a), sl(b)
	c := x.comp(st, "arr:uint8", types.Typ[types.Uint8], 0)
	aa, ba := Select(c, ap.base), Select(c, bp.base)
	x.qcount++
	i := Var("i!eq"+itoa(x.qcount), idxSort)
	all := Quant("forall", []*Term{i}, Implies(BVCmp("bvult", i, ap.ln),
		Eq(Select(aa, BVBin("bvadd", ap.off, i)), Select(ba, BVBin("bvadd", bp.off, i)))))
	r := x.c.Fresh("bytes_equal", SBool)
	x.extraAxioms = append(x.extraAxioms, Eq(r, And(Eq(ap.ln, bp.ln), all)))
	return r
}

func itoa(i int) string {
	if i == 0 {
		return "0"
	}
	s := ""
	for i > 0 {
		s = string(rune('0'+i%10)) + s
		i /= 10
	}
	return s
}

func registerSpecBuiltins(x *Exec) {
	x.specBuiltins["bytesEq"] = func(sc *specScope, n *ECall) Value {
		a := x.evalSpec0(sc, n.Args[0], nil)
		b := x.evalSpec0(sc, n.Args[1], nil)
		return boolV(x.bytesEqual(sc.st, a, b))
	}
	// dyn(x, "T"): the payload of interface value x viewed as a value of (pointer) type T
	x.specBuiltins["dyn"] = func(sc *specScope, n *ECall) Value {
		a := x.evalSpec0(sc, n.Args[0], nil)
		lit, ok := n.Args[1].(*ELit)
		if !ok {
			unsup("spec: dyn needs a type name string")
		}
		T := x.lookupType(lit.Text)
		if T == nil {
			unsup("spec: dyn: unknown type %s", lit.Text)
		}
		return x.unbox(sc.st, Value{T: a.T, L: a.L}, T)
	}
	// iserr(e): e != nil for error interface
	x.specBuiltins["iserr"] = func(sc *specScope, n *ECall) Value {
		a := x.evalSpec0(sc, n.Args[0], nil)
		return boolV(Not(Eq(a.L[0], IntLit(0))))
	}
}
