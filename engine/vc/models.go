package vc

import (
	"fmt"
	"go/token"
	"go/types"
	"strings"

	"golang.org/x/tools/go/ssa"
	"golang.org/x/tools/go/ssa/ssautil"
)

// Packages whose functions are treated as having no effect on the verified state (logging, metrics).
var noEffectPkgs = []string{
	"github.com/ChainSafe/gossamer/internal/log",
	"github.com/prometheus/",
	"github.com/ChainSafe/gossamer/dot/telemetry",
	"github.com/ChainSafe/gossamer/internal/metrics",
	"log",
}

// pureFuncs: library functions assumed to only read the memory reachable from their arguments.
var pureFuncs = map[string]bool{
	"golang.org/x/crypto/blake2b.Sum256": true, "crypto/ed25519.Verify": true, "golang.org/x/crypto/blake2b.Sum512": true,
	"crypto/aes.NewCipher": true, "crypto/cipher.NewGCM": true,
	// reflection used as plumbing (values carried in and out): effects through reflect.Value.Set are not modelled
	"reflect.ValueOf": true, "reflect.TypeOf": true, "reflect.New": true, "(reflect.Value).Interface": true, "(reflect.Value).Elem": true,
	"(reflect.Value).Convert": true, "(reflect.Value).Set": true, "(reflect.Value).Type": true, "(reflect.Value).Kind": true, "(reflect.Value).Len": true,
	"(reflect.Value).CanAddr": true, "(reflect.Value).Addr": true, "(reflect.Value).IsNil": true, "(reflect.Value).Index": true,
	"io.LimitReader": true,
	// hashing helpers of the module: digests are uninterpreted (results unconstrained), inputs only read
	"github.com/ChainSafe/gossamer/lib/common.Blake2bHash": true, "github.com/ChainSafe/gossamer/lib/common.MustBlake2bHash": true,
	"github.com/ChainSafe/gossamer/lib/common.Blake2b128": true, "github.com/ChainSafe/gossamer/lib/common.Keccak256": true,
	"github.com/ChainSafe/gossamer/lib/common.Twox128Hash": true, "github.com/ChainSafe/gossamer/lib/common.Twox64": true,
	"github.com/ChainSafe/gossamer/lib/common.Sha256": true, "github.com/ChainSafe/gossamer/lib/common.MustBlake2b8": true,
	"(github.com/ChainSafe/gossamer/dot/types.Extrinsic).Hash": true,
	"bytes.Join": true, "bytes.Contains": true, "bytes.Index": true, "bytes.IndexByte": true,
	"strings.HasPrefix": true, "strings.HasSuffix": true, "strings.Contains": true, "strings.TrimPrefix": true,
	"encoding/hex.EncodeToString": true, "(*math/big.Int).Cmp": true, "(*math/big.Int).Sign": true,
	"(*math/big.Int).Bytes": true, "(*math/big.Int).Uint64": true, "(*math/big.Int).IsUint64": true, "(*math/big.Int).Int64": true,
	"(*math/big.Int).String": true, "(*math/big.Int).BitLen": true, "math/big.NewInt": true,
	"time.Now": true, "(time.Time).Sub": true, "time.Since": true, "(time.Time).Add": true,
}

// pureIfaceMethods: interface methods assumed to only read their arguments (database getters)
var pureIfaceMethods = map[string]bool{
	"(pkg/trie/db.DBGetter).Get": true, "(pkg/trie/db.Database).Get": true, "(error).Error": true,
}

var ctorFuncs = map[string]bool{"crypto/aes.NewCipher": true, "crypto/cipher.NewGCM": true}

func isNoEffect(fn *ssa.Function) bool {
	p := ""
	if fn.Pkg != nil {
		p = fn.Pkg.Pkg.Path()
	} else if o := fn.Origin(); o != nil && o.Pkg != nil {
		p = o.Pkg.Pkg.Path()
	} else if fn.Signature.Recv() != nil {
		// method of a type in another package (wrapper); use the receiver's package
		t := fn.Signature.Recv().Type()
		if pt, ok := t.(*types.Pointer); ok {
			t = pt.Elem()
		}
		if n, ok := t.(*types.Named); ok && n.Obj().Pkg() != nil {
			p = n.Obj().Pkg().Path()
		}
	}
	for _, pre := range noEffectPkgs {
		if p == pre || strings.HasPrefix(p, pre) {
			return true
		}
	}
	return false
}

var errPseudoType = types.NewPointer(types.NewNamed(types.NewTypeName(token.NoPos, nil, "errorValue", nil), types.NewStruct(nil, nil), nil))

func (x *Exec) freshError(st *State, T types.Type) Value {
	ref := x.newRef(st, "err")
	return Value{T: T, L: []*Term{IntLit(int64(x.c.typeTag(errPseudoType))), ref}}
}

func retOne(st *State, v Value) []Outcome { return []Outcome{{St: st, Kind: OutReturn, Rets: []Value{v}}} }

func sigResult(fr *Frame, name string, x *Exec, i int) types.Type { return nil }

// DefaultModels returns the built-in library models.
func DefaultModels() map[string]Model {
	m := map[string]Model{}
	registerIOModels(m)
	registerExpModels(m)
	errT := types.Universe.Lookup("error").Type()
	m["fmt.Errorf"] = func(x *Exec, fr *Frame, st *State, args []Value, pos token.Pos) []Outcome {
		return retOne(st, x.freshError(st, errT))
	}
	m["errors.New"] = m["fmt.Errorf"]
	m["errors.Join"] = func(x *Exec, fr *Frame, st *State, args []Value, pos token.Pos) []Outcome {
		return retOne(st, x.freshValue(st, "joined", errT))
	}
	strT := types.Typ[types.String]
	for _, n := range []string{"fmt.Sprintf", "fmt.Sprint", "fmt.Sprintln"} {
		m[n] = func(x *Exec, fr *Frame, st *State, args []Value, pos token.Pos) []Outcome {
			return retOne(st, x.freshValue(st, "sprintf", strT))
		}
	}
	for _, n := range []string{"fmt.Println", "fmt.Printf", "fmt.Print", "fmt.Fprintf", "fmt.Fprintln"} {
		m[n] = func(x *Exec, fr *Frame, st *State, args []Value, pos token.Pos) []Outcome {
			return []Outcome{{St: st, Kind: OutReturn, Rets: []Value{x.freshValue(st, "n", tInt), x.freshValue(st, "err", errT)}}}
		}
	}
	m["errors.Is"] = func(x *Exec, fr *Frame, st *State, args []Value, pos token.Pos) []Outcome {
		b := x.c.Fresh("errors_is", SBool)
		e, t := args[0], args[1]
		same := And(Eq(e.L[0], t.L[0]), Eq(e.L[1], t.L[1]))
		st.assume(Implies(And(same, Not(Eq(e.L[0], IntLit(0)))), b))
		st.assume(Implies(And(Eq(e.L[0], IntLit(0)), Not(Eq(t.L[0], IntLit(0)))), Not(b)))
		return retOne(st, boolV(b))
	}
	m["bytes.Equal"] = func(x *Exec, fr *Frame, st *State, args []Value, pos token.Pos) []Outcome {
		return retOne(st, boolV(x.bytesEqual(st, args[0], args[1])))
	}
	m["bytes.HasPrefix"] = func(x *Exec, fr *Frame, st *State, args []Value, pos token.Pos) []Outcome {
		s, p := args[0], args[1]
		sp, pp := sl(s), sl(p)
		pre := Value{T: s.T, L: []*Term{sp.base, sp.off, pp.ln, pp.ln}}
		r := And(BVCmp("bvule", pp.ln, sp.ln), x.bytesEqual(st, pre, p))
		return retOne(st, boolV(x.define(st, "hasprefix", r)))
	}
	// bytes.Compare: an uninterpreted three-way comparison of the two byte sequences (array, offset, length);
	// specifications name the same function as bytesCompare(a, b). Assumed: it is a function of the contents.
	m["bytes.Compare"] = func(x *Exec, fr *Frame, st *State, args []Value, pos token.Pos) []Outcome {
		return retOne(st, scalar(tInt, x.define(st, "bytescmp", x.bytesCmpTerm(st, args[0], args[1]))))
	}
	// ---- time.Time: an instant is an uninterpreted signed 64-bit nanosecond count determined by the value's
	// wall and ext words (the location does not take part in comparisons); Before/After/Equal/Compare order
	// instants, UnixNano is the instant, Unix the instant divided by 10^9 (assumed abstraction of package time)
	timeInstant := func(x *Exec, v Value) *Term {
		if len(v.L) < 2 {
			unsup("time.Time value with %d leaves", len(v.L))
		}
		x.c.declFun("time.instant", []Sort{v.L[0].S, v.L[1].S}, SBV(64))
		x.c.note("assumed: time.Time values are ordered by an uninterpreted instant (nanoseconds) of their wall/ext words; Unix() is instant/10^9")
		return Apply("time.instant", SBV(64), v.L[0], v.L[1])
	}
	m["(time.Time).Before"] = func(x *Exec, fr *Frame, st *State, args []Value, pos token.Pos) []Outcome {
		return retOne(st, boolV(BVCmp("bvslt", timeInstant(x, args[0]), timeInstant(x, args[1]))))
	}
	m["(time.Time).After"] = func(x *Exec, fr *Frame, st *State, args []Value, pos token.Pos) []Outcome {
		return retOne(st, boolV(BVCmp("bvsgt", timeInstant(x, args[0]), timeInstant(x, args[1]))))
	}
	m["(time.Time).Equal"] = func(x *Exec, fr *Frame, st *State, args []Value, pos token.Pos) []Outcome {
		return retOne(st, boolV(Eq(timeInstant(x, args[0]), timeInstant(x, args[1]))))
	}
	m["(time.Time).Compare"] = func(x *Exec, fr *Frame, st *State, args []Value, pos token.Pos) []Outcome {
		a, b := timeInstant(x, args[0]), timeInstant(x, args[1])
		return retOne(st, scalar(tInt, Ite(BVCmp("bvslt", a, b), BVLit64(-1, 64), Ite(Eq(a, b), BVLit64(0, 64), BVLit64(1, 64)))))
	}
	m["(time.Time).UnixNano"] = func(x *Exec, fr *Frame, st *State, args []Value, pos token.Pos) []Outcome {
		return retOne(st, scalar(types.Typ[types.Int64], timeInstant(x, args[0])))
	}
	m["(time.Time).Unix"] = func(x *Exec, fr *Frame, st *State, args []Value, pos token.Pos) []Outcome {
		return retOne(st, scalar(types.Typ[types.Int64], x.define(st, "unix", BVBin("bvsdiv", timeInstant(x, args[0]), BVLit64(1000000000, 64)))))
	}
	// ---- lib/runtime.Memory (Wasm linear memory), assumed interface contract with ghost state:
	// size in bytes (at most 4 GiB, only grows), contents as 64-bit words addressed by byte offset
	// (the allocator only touches 8-byte header words; overlapping unaligned accesses are not modelled).
	memName := func(meth string) string { return "(lib/runtime.Memory)." + meth }
	m[memName("Size")] = func(x *Exec, fr *Frame, st *State, args []Value, pos token.Pos) []Outcome {
		return retOne(st, scalar(types.Typ[types.Uint64], x.memSize(st, args[0])))
	}
	m[memName("Grow")] = func(x *Exec, fr *Frame, st *State, args []Value, pos token.Pos) []Outcome {
		size := x.memSize(st, args[0])
		pages := ZeroExt(args[1].L[0], 64)
		nsize := BVBin("bvadd", size, BVBin("bvmul", pages, BVLit64(65536, 64)))
		ok := x.c.Fresh("grow_ok", SBool)
		st.assume(Implies(BVCmp("bvugt", nsize, BVLit64(1<<32, 64)), Not(ok)))
		x.setGhost(st, "memsize:"+args[0].L[1].String(), Ite(ok, nsize, size))
		old := Extract(31, 0, BVBin("bvudiv", size, BVLit64(65536, 64)))
		return []Outcome{{St: st, Kind: OutReturn, Rets: []Value{scalar(types.Typ[types.Uint32], old), boolV(ok)}}}
	}
	m[memName("ReadUint64Le")] = func(x *Exec, fr *Frame, st *State, args []Value, pos token.Pos) []Outcome {
		size := x.memSize(st, args[0])
		off := args[1].L[0]
		ok := BVCmp("bvule", BVBin("bvadd", ZeroExt(off, 64), BVLit64(8, 64)), size)
		v := Select(x.memWords(st, args[0]), off)
		return []Outcome{{St: st, Kind: OutReturn, Rets: []Value{scalar(types.Typ[types.Uint64], x.define(st, "memrd", Ite(ok, v, BVLit64(0, 64)))), boolV(x.define(st, "memrd_ok", ok))}}}
	}
	m[memName("WriteUint64Le")] = func(x *Exec, fr *Frame, st *State, args []Value, pos token.Pos) []Outcome {
		size := x.memSize(st, args[0])
		off := args[1].L[0]
		ok := x.define(st, "memwr_ok", BVCmp("bvule", BVBin("bvadd", ZeroExt(off, 64), BVLit64(8, 64)), size))
		w := x.memWords(st, args[0])
		x.setGhost(st, "memwords:"+args[0].L[1].String(), Ite(ok, Store(w, off, args[2].L[0]), w))
		return retOne(st, boolV(ok))
	}
	// ---- io.ReadFull(r, buf): all len(buf) bytes or an error. When r is (a wrapper struct embedding) a
	// *bytes.Buffer / *bytes.Reader the effect on that reader is exact; otherwise n and the bytes are unconstrained.
	m["io.ReadFull"] = func(x *Exec, fr *Frame, st *State, args []Value, pos token.Pos) []Outcome {
		r, buf := args[0], args[1]
		bp := sl(buf)
		errT := types.Universe.Lookup("error").Type()
		x.oblige(fr, st, "nil", x.src(fr.fn, pos, "ReadFull")+"(reader)", pos, Not(Eq(r.L[0], IntLit(0))))
		// unwrap: interface -> concrete pointer -> (struct with embedded io.Reader field)* -> bytes.Buffer/Reader
		cur := r
		for depth := 0; depth < 4; depth++ {
			var T types.Type
			if cur.L[0].IsLit {
				T = x.c.tagTypes[int(cur.L[0].Val.Int64())]
			} else if id, ok := x.dynTags[cur.L[0].String()]; ok {
				T = x.c.tagTypes[id]
			}
			if T == nil {
				break
			}
			pv := x.unbox(st, cur, T)
			tn := typeName(T)
			if tn == "*bytes.Buffer" || tn == "*bytes.Reader" {
				loc := x.ptrLoc(pv)
				stt := loc.T.Underlying().(*types.Struct)
				fld := func(name string) *Loc {
					for i := 0; i < stt.NumFields(); i++ {
						if stt.Field(i).Name() == name {
							l := *loc
							lo, hi := x.c.fieldRange(stt, i)
							l.Lo, l.Hi, l.T = loc.Lo+lo, loc.Lo+hi, stt.Field(i).Type()
							return &l
						}
					}
					return nil
				}
				dataF, posF := "buf", "off"
				if tn == "*bytes.Reader" {
					dataF, posF = "s", "i"
				}
				data := x.load(st, fld(dataF))
				data.T = fld(dataF).T
				off := x.idx64(x.load(st, fld(posF)))
				dp := sl(data)
				rem := BVBin("bvsub", dp.ln, off)
				enough := x.define(st, "readfull_ok", BVCmp("bvsge", rem, bp.ln))
				// bytes copied on success
				c := x.comp(st, "arr:uint8", types.Typ[types.Uint8], 0)
				src := Select(c, dp.base)
				na := x.c.Fresh("readfull", SArr(idxSort, SBV(8)))
				i := Var("i!q", idxSort)
				rel := BVBin("bvsub", i, bp.off)
				st.assume(Quant("forall", []*Term{i}, Eq(Select(na, i), Ite(And(enough, BVCmp("bvult", rel, bp.ln)),
					Select(src, BVBin("bvadd", BVBin("bvadd", dp.off, off), rel)), Ite(BVCmp("bvult", rel, bp.ln), Select(x.c.Fresh("partial", SArr(idxSort, SBV(8))), i), Select(Select(c, bp.base), i)))), Select(na, i)))
				x.setComp(st, "arr:uint8", types.Typ[types.Uint8], 0, Store(c, bp.base, na))
				// position: advanced by len(buf) on success, to the end otherwise
				npos := Ite(enough, BVBin("bvadd", off, bp.ln), dp.ln)
				pf := fld(posF)
				pw, _, _ := basicWidth(pf.T.Underlying().(*types.Basic))
				x.store(st, pf, scalar(pf.T, Extract(pw-1, 0, npos)))
				ev := x.freshError(st, errT)
				n := Ite(enough, bp.ln, x.c.Fresh("readfull_n", idxSort))
				e := Value{T: errT, L: []*Term{Ite(enough, IntLit(0), ev.L[0]), Ite(enough, IntLit(0), ev.L[1])}}
				x.c.note("assumed: io.ReadFull over a bytes.Buffer/bytes.Reader copies len(buf) bytes and advances the position, or fails leaving the reader exhausted")
				return []Outcome{{St: st, Kind: OutReturn, Rets: []Value{scalar(tInt, n), e}}}
			}
			// struct with an embedded / named io.Reader field?
			pt, ok := T.Underlying().(*types.Pointer)
			if !ok {
				break
			}
			stt, ok := pt.Elem().Underlying().(*types.Struct)
			if !ok {
				break
			}
			found := false
			for i := 0; i < stt.NumFields(); i++ {
				if typeName(stt.Field(i).Type()) == "io.Reader" {
					loc := *x.ptrLoc(pv)
					lo, hi := x.c.fieldRange(stt, i)
					loc.Lo, loc.Hi, loc.T = loc.Lo+lo, loc.Lo+hi, stt.Field(i).Type()
					cur = x.load(st, &loc)
					cur.T = loc.T
					found = true
					break
				}
			}
			if !found {
				break
			}
		}
		// generic reader: unconstrained outcome with the library guarantee err == nil ==> n == len(buf)
		x.havocReachable(st, buf)
		n := x.c.Fresh("readfull_n", idxSort)
		e := x.freshValue(st, "readfull_err", errT)
		st.assume(Implies(Eq(e.L[0], IntLit(0)), Eq(n, bp.ln)))
		st.assume(BVCmp("bvule", n, bp.ln))
		x.c.note("assumed: io.ReadFull returns err == nil only if it filled the whole buffer")
		return []Outcome{{St: st, Kind: OutReturn, Rets: []Value{scalar(tInt, n), e}}}
	}
	// ---- container/heap over a heap.Interface whose dynamic type is known: the element order is
	// abstracted (the backing slice is permuted arbitrarily, non-nil-ness of its elements is preserved), and
	// Push / Pop / Remove end with the real h.Push(x) / h.Pop() of the interface ----
	heapPermute := func(x *Exec, st *State, recv Value) {
		// recv: pointer to a slice type with pointer elements
		pt, ok := recv.T.Underlying().(*types.Pointer)
		if !ok {
			return
		}
		slT, ok := pt.Elem().Underlying().(*types.Slice)
		if !ok {
			x.havocReachable(st, recv)
			return
		}
		sv := x.load(st, x.ptrLoc(recv))
		sv.T = pt.Elem()
		p := sl(sv)
		et := slT.Elem()
		fam := "arr:" + x.c.elemFamName(et)
		for j, l := range x.c.leaves(et) {
			c := x.comp(st, fam, et, j)
			old := Select(c, p.base)
			na := x.c.Fresh("heap_perm", SArr(idxSort, l.S))
			if l.Kind == 'r' {
				x.qcount++
				k := Var("k!q"+itoa(x.qcount), idxSort)
				// elements are the same pointers in another order; the queue never holds nil items
				// (heap.Interface methods would dereference them), so none appears
				_ = old
				st.assume(Quant("forall", []*Term{k}, Implies(BVCmp("bvult", k, p.ln), Not(Eq(Select(na, BVBin("bvadd", p.off, k)), IntLit(0)))), Select(na, BVBin("bvadd", p.off, k))))
			}
			x.setComp(st, fam, et, j, Store(c, p.base, na))
		}
	}
	heapMethod := func(x *Exec, fr *Frame, st *State, h Value, name string, args []Value, pos token.Pos) []Outcome {
		if !h.L[0].IsLit {
			unsup("container/heap on an interface of unknown dynamic type")
		}
		T := x.c.tagTypes[int(h.L[0].Val.Int64())]
		sel := x.prog.MethodSets.MethodSet(T).Lookup(nil, name)
		if sel == nil {
			unsup("container/heap: %s has no method %s", typeName(T), name)
		}
		fn := x.prog.MethodValue(sel)
		return x.callFn(fr, st, fn, append([]Value{x.unbox(st, h, T)}, args...), nil, pos)
	}
	heapNote := "assumed: container/heap functions permute the underlying slice arbitrarily (heap order not modelled) and end with the interface's own Push/Pop"
	m["container/heap.Init"] = func(x *Exec, fr *Frame, st *State, args []Value, pos token.Pos) []Outcome {
		x.c.note(heapNote)
		if args[0].L[0].IsLit {
			heapPermute(x, st, x.unbox(st, args[0], x.c.tagTypes[int(args[0].L[0].Val.Int64())]))
		}
		return []Outcome{{St: st, Kind: OutReturn}}
	}
	m["container/heap.Fix"] = m["container/heap.Init"]
	m["container/heap.Push"] = func(x *Exec, fr *Frame, st *State, args []Value, pos token.Pos) []Outcome {
		x.c.note(heapNote)
		outs := heapMethod(x, fr, st, args[0], "Push", []Value{args[1]}, pos)
		for _, o := range outs {
			if o.Kind == OutReturn {
				heapPermute(x, o.St, x.unbox(o.St, args[0], x.c.tagTypes[int(args[0].L[0].Val.Int64())]))
			}
		}
		return outs
	}
	popLike := func(x *Exec, fr *Frame, st *State, args []Value, pos token.Pos) []Outcome {
		x.c.note(heapNote)
		if args[0].L[0].IsLit {
			heapPermute(x, st, x.unbox(st, args[0], x.c.tagTypes[int(args[0].L[0].Val.Int64())]))
		}
		return heapMethod(x, fr, st, args[0], "Pop", nil, pos)
	}
	m["container/heap.Pop"], m["container/heap.Remove"] = popLike, popLike
	// ---- container/list as a sequence (models_list.go) ----
	registerListModels(m)
	// ---- math/big.Int as an opaque object: constructors allocate, arithmetic methods write only the
	// receiver and return it (numeric values are not modelled here) ----
	bigT := func(x *Exec) types.Type {
		if T := x.lookupType("*math/big.Int"); T != nil {
			return T
		}
		return types.NewPointer(types.Typ[types.Int])
	}
	// the numeric value of a big.Int is tracked as a 128-bit ghost (values beyond 2^128 are not modelled:
	// such results are unconstrained)
	beVal := func(x *Exec, st *State, b Value) *Term {
		p := sl(b)
		arr := Select(x.comp(st, "arr:uint8", types.Typ[types.Uint8], 0), p.base)
		v := BVLit64(0, 128)
		for k := int64(0); k < 16; k++ {
			byteK := ZeroExt(Select(arr, BVBin("bvadd", p.off, BVLit64(k, 64))), 128)
			// each step is named: the accumulator occurs twice per step, so an unnamed term doubles in
			// printed size with every byte (2^16 copies for 16 bytes)
			v = x.define(st, "beval", Ite(BVCmp("bvult", BVLit64(k, 64), p.ln), BVBin("bvor", BVBin("bvshl", v, BVLit64(8, 128)), byteK), v))
		}
		return v
	}
	m["math/big.NewInt"] = func(x *Exec, fr *Frame, st *State, args []Value, pos token.Pos) []Outcome {
		r := x.newRef(st, "bigint")
		// sign and magnitude: bigval is |x|, bigneg is x < 0
		neg := BVCmp("bvslt", args[0].L[0], BVLit64(0, 64))
		x.setGhost(st, "bigval:"+r.String(), x.define(st, "bigval", ZeroExt(Ite(neg, BVBin("bvsub", BVLit64(0, 64), args[0].L[0]), args[0].L[0]), 128)))
		x.setGhost(st, "bigneg:"+r.String(), x.define(st, "bigneg", neg))
		return retOne(st, Value{T: bigT(x), L: []*Term{r}})
	}
	// Cmp, Sign, Int64, Uint64, IsUint64 over the tracked sign and magnitude (values below 2^128)
	bigSM := func(x *Exec, st *State, p Value) (*Term, *Term) {
		return x.ghostGet(st, "bigval:"+p.L[0].String()), x.ghostGet(st, "bigneg:"+p.L[0].String())
	}
	m["(*math/big.Int).Cmp"] = func(x *Exec, fr *Frame, st *State, args []Value, pos token.Pos) []Outcome {
		x.oblige(fr, st, "nil", x.src(fr.fn, pos, "bigint")+"(recv)", pos, And(Not(Eq(args[0].L[0], IntLit(0))), Not(Eq(args[1].L[0], IntLit(0)))))
		am, an := bigSM(x, st, args[0])
		bm, bn := bigSM(x, st, args[1])
		an2, bn2 := And(an, Not(Eq(am, BVLit64(0, 128)))), And(bn, Not(Eq(bm, BVLit64(0, 128))))
		lt := Or(And(an2, Not(bn2)), And(Not(an2), Not(bn2), BVCmp("bvult", am, bm)), And(an2, bn2, BVCmp("bvugt", am, bm)))
		eq := And(Eq(an2, bn2), Eq(am, bm))
		x.c.note("assumed: big.Int.Cmp compares the tracked values (values below 2^128)")
		return retOne(st, scalar(tInt, x.define(st, "bigcmp", Ite(eq, BVLit64(0, 64), Ite(lt, BVLit64(-1, 64), BVLit64(1, 64))))))
	}
	m["(*math/big.Int).Sign"] = func(x *Exec, fr *Frame, st *State, args []Value, pos token.Pos) []Outcome {
		x.oblige(fr, st, "nil", x.src(fr.fn, pos, "bigint")+"(recv)", pos, Not(Eq(args[0].L[0], IntLit(0))))
		am, an := bigSM(x, st, args[0])
		return retOne(st, scalar(tInt, Ite(Eq(am, BVLit64(0, 128)), BVLit64(0, 64), Ite(an, BVLit64(-1, 64), BVLit64(1, 64)))))
	}
	for _, meth := range []string{"Int64", "Uint64"} {
		meth := meth
		m["(*math/big.Int)."+meth] = func(x *Exec, fr *Frame, st *State, args []Value, pos token.Pos) []Outcome {
			x.oblige(fr, st, "nil", x.src(fr.fn, pos, "bigint")+"(recv)", pos, Not(Eq(args[0].L[0], IntLit(0))))
			am, an := bigSM(x, st, args[0])
			low := Extract(63, 0, am)
			T := types.Typ[types.Int64]
			if meth == "Uint64" {
				T = types.Typ[types.Uint64]
			}
			x.c.note("assumed: big.Int.Int64/Uint64 return the low 64 bits of the value (two's complement for negative values)")
			return retOne(st, scalar(T, x.define(st, "bigint64", Ite(an, BVBin("bvsub", BVLit64(0, 64), low), low))))
		}
	}
	m["(*math/big.Int).Lsh"] = func(x *Exec, fr *Frame, st *State, args []Value, pos token.Pos) []Outcome {
		x.oblige(fr, st, "nil", x.src(fr.fn, pos, "bigint")+"(recv)", pos, And(Not(Eq(args[0].L[0], IntLit(0))), Not(Eq(args[1].L[0], IntLit(0)))))
		am, an := bigSM(x, st, args[1])
		sh := ZeroExt(args[2].L[0], 128)
		shifted := BVBin("bvshl", am, sh)
		fits := And(BVCmp("bvult", sh, BVLit64(128, 128)), Eq(BVBin("bvlshr", shifted, sh), am))
		x.setGhost(st, "bigval:"+args[0].L[0].String(), x.define(st, "bigval", Ite(fits, shifted, x.c.Fresh("bigval_wide", SBV(128)))))
		x.setGhost(st, "bigneg:"+args[0].L[0].String(), an)
		x.c.note("assumed: big.Int.Lsh sets the receiver to x << n (tracked when the result stays below 2^128)")
		return retOne(st, args[0])
	}
	m["(*math/big.Int).SetBytes"] = func(x *Exec, fr *Frame, st *State, args []Value, pos token.Pos) []Outcome {
		x.oblige(fr, st, "nil", x.src(fr.fn, pos, "bigint")+"(recv)", pos, Not(Eq(args[0].L[0], IntLit(0))))
		v := Ite(BVCmp("bvule", sl(args[1]).ln, BVLit64(16, 64)), beVal(x, st, args[1]), x.c.Fresh("bigval_wide", SBV(128)))
		x.setGhost(st, "bigval:"+args[0].L[0].String(), x.define(st, "bigval", v))
		x.setGhost(st, "bigneg:"+args[0].L[0].String(), False)
		x.c.note("assumed: big.Int.SetBytes interprets its argument as a big-endian unsigned integer (values up to 128 bits tracked)")
		return retOne(st, args[0])
	}
	m["(*math/big.Int).SetString"] = func(x *Exec, fr *Frame, st *State, args []Value, pos token.Pos) []Outcome {
		x.oblige(fr, st, "nil", x.src(fr.fn, pos, "bigint")+"(recv)", pos, Not(Eq(args[0].L[0], IntLit(0))))
		ok := x.c.Fresh("setstring_ok", SBool)
		x.havocReachable(st, args[0])
		x.setGhost(st, "bigval:"+args[0].L[0].String(), x.c.Fresh("bigval", SBV(128)))
		x.setGhost(st, "bigneg:"+args[0].L[0].String(), x.c.Fresh("bigneg", SBool))
		x.c.note("assumed: big.Int.SetString returns its receiver and true, or nil and false")
		return []Outcome{{St: st, Kind: OutReturn, Rets: []Value{{T: args[0].T, L: []*Term{Ite(ok, args[0].L[0], IntLit(0))}}, boolV(ok)}}}
	}
	m["(*math/big.Int).Bytes"] = func(x *Exec, fr *Frame, st *State, args []Value, pos token.Pos) []Outcome {
		x.oblige(fr, st, "nil", x.src(fr.fn, pos, "bigint")+"(recv)", pos, Not(Eq(args[0].L[0], IntLit(0))))
		val := x.ghostGet(st, "bigval:"+args[0].L[0].String())
		byteT := types.Typ[types.Uint8]
		n := x.c.Fresh("bigbytes_len", idxSort)
		out := x.newSlice(st, types.NewSlice(byteT), byteT, n, n, "bigbytes")
		content := x.c.Fresh("bigbytes", SArr(idxSort, SBV(8)))
		c := x.comp(st, "arr:uint8", byteT, 0)
		x.setComp(st, "arr:uint8", byteT, 0, Store(c, out.L[0], content))
		// minimal big-endian representation of the (128-bit tracked) value
		st.assume(BVCmp("bvule", n, BVLit64(16, 64)))
		st.assume(Eq(beVal(x, st, out), val))
		st.assume(Implies(Not(Eq(n, BVLit64(0, 64))), Not(Eq(Select(content, BVLit64(0, 64)), BVLit64(0, 8)))))
		x.c.note("assumed: big.Int.Bytes returns the minimal big-endian bytes of the value (non-negative values below 2^128)")
		return retOne(st, out)
	}
	for _, meth := range []string{"Add", "Sub", "Mul", "Div", "Mod", "Quo", "Rem", "Set", "SetUint64", "SetInt64", "Rsh", "Exp", "Neg", "Abs", "And", "Or"} {
		m["(*math/big.Int)."+meth] = func(x *Exec, fr *Frame, st *State, args []Value, pos token.Pos) []Outcome {
			x.oblige(fr, st, "nil", x.src(fr.fn, pos, "bigint")+"(recv)", pos, Not(Eq(args[0].L[0], IntLit(0))))
			x.havocReachable(st, args[0])
			x.setGhost(st, "bigval:"+args[0].L[0].String(), x.c.Fresh("bigval", SBV(128)))
			x.setGhost(st, "bigneg:"+args[0].L[0].String(), x.c.Fresh("bigneg", SBool))
			x.c.note("assumed: math/big.Int arithmetic methods write only their receiver and return it; numeric values not modelled")
			return retOne(st, args[0])
		}
	}
	// ---- math/bits: exact bit-counting functions as ite chains ----
	tz := func(w int) Model {
		return func(x *Exec, fr *Frame, st *State, args []Value, pos token.Pos) []Outcome {
			v := args[0].L[0]
			r := BVLit64(int64(w), 64)
			for k := w - 1; k >= 0; k-- {
				r = Ite(Not(Eq(Extract(k, k, v), BVLit64(0, 1))), BVLit64(int64(k), 64), r)
			}
			return retOne(st, scalar(tInt, x.define(st, "tz", r)))
		}
	}
	blen := func(w int) func(v *Term) *Term {
		return func(v *Term) *Term {
			r := BVLit64(0, 64)
			for k := 0; k < w; k++ {
				r = Ite(Not(Eq(Extract(k, k, v), BVLit64(0, 1))), BVLit64(int64(k+1), 64), r)
			}
			return r
		}
	}
	m["math/bits.TrailingZeros32"], m["math/bits.TrailingZeros64"] = tz(32), tz(64)
	for _, w := range []int{32, 64} {
		w := w
		suffix := fmt.Sprintf("%d", w)
		m["math/bits.Len"+suffix] = func(x *Exec, fr *Frame, st *State, args []Value, pos token.Pos) []Outcome {
			return retOne(st, scalar(tInt, x.define(st, "bitlen", blen(w)(args[0].L[0]))))
		}
		m["math/bits.LeadingZeros"+suffix] = func(x *Exec, fr *Frame, st *State, args []Value, pos token.Pos) []Outcome {
			return retOne(st, scalar(tInt, x.define(st, "lz", BVBin("bvsub", BVLit64(int64(w), 64), blen(w)(args[0].L[0])))))
		}
	}
	m["math/bits.Len"] = m["math/bits.Len64"]
	// slices.Reverse(s): in-place reversal (library contract: new[i] == old[len-1-i])
	m["slices.Reverse"] = func(x *Exec, fr *Frame, st *State, args []Value, pos token.Pos) []Outcome {
		s := args[0]
		et := s.T.Underlying().(*types.Slice).Elem()
		fam := "arr:" + x.c.elemFamName(et)
		p := sl(s)
		for j, l := range x.c.leaves(et) {
			c := x.comp(st, fam, et, j)
			old := Select(c, p.base)
			na := x.c.Fresh("reversed", SArr(idxSort, l.S))
			i := Var("i!q", idxSort)
			rel := BVBin("bvsub", i, p.off)
			mirror := BVBin("bvadd", p.off, BVBin("bvsub", BVBin("bvsub", p.ln, BVLit64(1, 64)), rel))
			st.assume(Quant("forall", []*Term{i}, Eq(Select(na, i), Ite(BVCmp("bvult", rel, p.ln), Select(old, mirror), Select(old, i))), Select(na, i)))
			x.setComp(st, fam, et, j, Store(c, p.base, na))
		}
		x.c.note("assumed: slices.Reverse reverses its argument in place")
		return []Outcome{{St: st, Kind: OutReturn}}
	}
	// ---- sync.Mutex / sync.RWMutex: ghost lock state per mutex (0 free, 1 write-held, 2 read-held) ----
	lockOp := func(opName string, need func(cur *Term) *Term, next int64) Model {
		return func(x *Exec, fr *Frame, st *State, args []Value, pos token.Pos) []Outcome {
			loc := x.ptrLoc(args[0])
			key := "lock:" + locKey(loc)
			cur, ok := st.ghost[key]
			if !ok {
				cur = IntLit(0) // assumption: locks are free when a verified (public) operation starts
			}
			fc := fr.fc
			if fc == nil {
				fc = x.contracts[contractKey(fr.fn)]
			}
			if x.checkLocks {
				x.oblige(fr, st, "lock", x.src(fr.fn, pos, opName)+":"+opName, pos, need(cur))
			}
			st.assume(need(cur))
			st.ghost[key] = IntLit(next)
			if st.written != nil {
				if st.written.ghost == nil {
					st.written.ghost = map[string]bool{}
				}
				st.written.ghost[key] = true
			}
			return []Outcome{{St: st, Kind: OutReturn}}
		}
	}
	free := func(c *Term) *Term { return Eq(c, IntLit(0)) }
	notW := func(c *Term) *Term { return Not(Eq(c, IntLit(1))) }
	isW := func(c *Term) *Term { return Eq(c, IntLit(1)) }
	isR := func(c *Term) *Term { return Eq(c, IntLit(2)) }
	m["(*sync.Mutex).Lock"] = lockOp("Lock", free, 1)
	m["(*sync.Mutex).Unlock"] = lockOp("Unlock", isW, 0)
	m["(*sync.RWMutex).Lock"] = lockOp("Lock", free, 1)
	m["(*sync.RWMutex).Unlock"] = lockOp("Unlock", isW, 0)
	m["(*sync.RWMutex).RLock"] = lockOp("RLock", notW, 2)
	m["(*sync.RWMutex).RUnlock"] = lockOp("RUnlock", isR, 0)
	// ---- crypto/cipher.AEAD (GCM with the standard 12-byte nonce and 16-byte tag): assumed contract ----
	m["(crypto/cipher.AEAD).NonceSize"] = func(x *Exec, fr *Frame, st *State, args []Value, pos token.Pos) []Outcome {
		x.c.note("assumed: cipher.AEAD.NonceSize() == 12, Overhead() == 16 (standard GCM)")
		return retOne(st, scalar(tInt, BVLit64(12, 64)))
	}
	m["(crypto/cipher.AEAD).Overhead"] = func(x *Exec, fr *Frame, st *State, args []Value, pos token.Pos) []Outcome {
		return retOne(st, scalar(tInt, BVLit64(16, 64)))
	}
	// Seal(dst, nonce, plaintext, ad) appends len(plaintext)+16 bytes to dst; Open(dst, nonce, ct, ad)
	// appends len(ct)-16 bytes to dst or fails. Both read their other arguments only.
	aeadAppend := func(name string, outLen func(in *Term) (*Term, *Term)) Model {
		return func(x *Exec, fr *Frame, st *State, args []Value, pos token.Pos) []Outcome {
			x.c.note("assumed: cipher.AEAD.%s appends its output to dst (in place when dst has spare capacity) and only reads nonce, input and additional data; the cryptographic relation between Seal and Open is not modelled", name)
			dst, in := args[1], args[3]
			dp := sl(dst)
			n, okc := outLen(sl(in).ln)
			byteT := types.Typ[types.Uint8]
			bs := types.NewSlice(byteT)
			newLen := BVBin("bvadd", dp.ln, n)
			fits := BVCmp("bvule", newLen, dp.cp)
			nref := x.newRef(st, "aead")
			base := x.define(st, "aead_base", Ite(fits, dp.base, nref))
			ncap := x.c.Fresh("aead_cap", idxSort)
			st.assume(BVCmp("bvuge", ncap, newLen))
			st.assume(BVCmp("bvule", ncap, BVLit64(1<<41, 64)))
			c := x.comp(st, "arr:uint8", byteT, 0)
			// output bytes are unconstrained; the prefix (old dst contents) is preserved
			na := x.c.Fresh("aead_out", SArr(idxSort, SBV(8)))
			i := Var("i!q", idxSort)
			old := Select(c, dp.base)
			st.assume(Quant("forall", []*Term{i}, Implies(Not(BVCmp("bvult", BVBin("bvsub", i, BVBin("bvadd", dp.off, dp.ln)), n)), Eq(Select(na, i), Select(old, i))), Select(na, i)))
			res := Value{T: bs, L: []*Term{base, dp.off, x.define(st, "aead_len", newLen), x.define(st, "aead_capv", Ite(fits, dp.cp, ncap))}}
			errT := types.Universe.Lookup("error").Type()
			if name == "Open" {
				// two outcomes folded into one: err != nil (result nil) or success
				fail := x.c.Fresh("aead_open_fails", SBool)
				st.assume(Implies(Not(okc), fail))
				ev := x.freshError(st, errT)
				// only on success, and only if at least one byte is produced, is anything written
				wbase := x.define(st, "aead_wbase", Ite(Or(fail, Eq(n, BVLit64(0, 64))), nref, base))
				x.setComp(st, "arr:uint8", byteT, 0, Store(c, wbase, na))
				z := x.zero(bs)
				out := Value{T: bs}
				for k := range res.L {
					out.L = append(out.L, Ite(fail, z.L[k], res.L[k]))
				}
				e := Value{T: errT, L: []*Term{Ite(fail, ev.L[0], IntLit(0)), Ite(fail, ev.L[1], IntLit(0))}}
				return []Outcome{{St: st, Kind: OutReturn, Rets: []Value{out, e}}}
			}
			x.setComp(st, "arr:uint8", byteT, 0, Store(c, base, na))
			return retOne(st, res)
		}
	}
	m["(crypto/cipher.AEAD).Seal"] = aeadAppend("Seal", func(in *Term) (*Term, *Term) { return BVBin("bvadd", in, BVLit64(16, 64)), True })
	m["(crypto/cipher.AEAD).Open"] = aeadAppend("Open", func(in *Term) (*Term, *Term) {
		return BVBin("bvsub", in, BVLit64(16, 64)), BVCmp("bvuge", in, BVLit64(16, 64))
	})
	return m
}

// bytesEqual returns a Bool term equivalent to bytes.Equal(a, b).
func (x *Exec) bytesEqual(st *State, a, b Value) *Term {
	ap, bp := sl(a), sl(b)
	c := x.comp(st, "arr:uint8", types.Typ[types.Uint8], 0)
	aa, ba := Select(c, ap.base), Select(c, bp.base)
	x.qcount++
	i := Var("i!eq"+itoa(x.qcount), idxSort)
	all := Quant("forall", []*Term{i}, Implies(BVCmp("bvult", i, ap.ln),
		Eq(Select(aa, BVBin("bvadd", ap.off, i)), Select(ba, BVBin("bvadd", bp.off, i)))))
	r := x.c.Fresh("bytes_equal", SBool)
	x.extraAxioms = append(x.extraAxioms, Eq(r, And(Eq(ap.ln, bp.ln), all)))
	return r
}

// bytesCmpTerm: bytes.Compare as an uninterpreted function of the two sequences. Arguments are slices or
// (in specifications) array values.
func (x *Exec) bytesCmpTerm(st *State, a, b Value) *Term {
	seq := func(v Value) (arr, off, ln *Term) {
		if at, ok := v.T.Underlying().(*types.Array); ok && len(v.L) == 1 {
			return v.L[0], BVLit64(0, 64), BVLit64(at.Len(), 64)
		}
		if !isSliceT(v.T) {
			unsup("bytes.Compare of %s", v.T)
		}
		p := sl(v)
		return Select(x.comp(st, "arr:uint8", types.Typ[types.Uint8], 0), p.base), p.off, p.ln
	}
	aa, ao, al := seq(a)
	ba, bo, bl := seq(b)
	x.c.declFun("bytes.compare", []Sort{aa.S, idxSort, idxSort, ba.S, idxSort, idxSort}, idxSort)
	x.c.note("assumed: bytes.Compare is an uninterpreted function of the two byte sequences")
	return Apply("bytes.compare", idxSort, aa, ao, al, ba, bo, bl)
}

func itoa(i int) string {
	if i == 0 {
		return "0"
	}
	s := ""
	for i > 0 {
		s = string(rune('0'+i%10)) + s
		i /= 10
	}
	return s
}

// ---- lock discipline (data-race freedom by contract) ----

type guard struct {
	isMap   bool
	lockKey string
	ref     *Term
	what    string
}

// mutexKey returns the ghost key of the mutex denoted by v: a *sync.Mutex / *sync.RWMutex, or a
// pointer to a struct with a mutex field (the first one).
func (x *Exec) mutexKey(v Value) string {
	loc := *x.ptrLoc(v)
	if stt, ok := loc.T.Underlying().(*types.Struct); ok && !strings.HasPrefix(typeName(loc.T), "sync.") {
		found := false
		for i := 0; i < stt.NumFields(); i++ {
			tn := typeName(stt.Field(i).Type())
			if tn == "sync.Mutex" || tn == "sync.RWMutex" {
				lo, hi := x.c.fieldRange(stt, i)
				loc.Lo, loc.Hi, loc.T = loc.Lo+lo, loc.Lo+hi, stt.Field(i).Type()
				found = true
				break
			}
		}
		if !found {
			unsup("spec: no mutex field in %s", typeName(v.T))
		}
	}
	return "lock:" + locKey(&loc)
}

func (x *Exec) lockState(st *State, key string) *Term {
	if cur, ok := st.ghost[key]; ok {
		return cur
	}
	return IntLit(0)
}

// guardAccess emits the lock-discipline obligation for an access to the object at ref.
func (x *Exec) guardAccess(st *State, ref *Term, write bool) { x.guardAccessK(st, ref, write, false) }

// guardAccessK: isMap tells whether ref denotes a map (maps and heap objects live in separate reference
// spaces, a guarded map is never confused with a guarded pointee).
func (x *Exec) guardAccessK(st *State, ref *Term, write bool, isMap bool) {
	if len(x.guards) == 0 || st.dry || x.inInit || ref == nil || x.inSpec > 0 {
		return
	}
	label, pos := "access", token.NoPos
	if x.curIns != nil && x.curFr != nil {
		pos = x.curIns.Pos()
		label = x.src(x.curFr.fn, pos, "access")
	}
	for _, g := range x.guards {
		if g.isMap != isMap || distinctTerms(ref, g.ref) {
			continue
		}
		cur := x.lockState(st, g.lockKey)
		if write {
			x.oblige(x.curFr, st, "race", label+":write_needs_write_lock("+g.what+")", pos, Implies(Eq(ref, g.ref), Eq(cur, IntLit(1))))
		} else {
			x.oblige(x.curFr, st, "race", label+":read_needs_lock("+g.what+")", pos, Implies(Eq(ref, g.ref), Not(Eq(cur, IntLit(0)))))
		}
	}
}

// setGhost writes a ghost variable and records the write for loop write-set discovery.
func (x *Exec) setGhost(st *State, key string, t *Term) {
	st.ghost[key] = t
	if st.written != nil {
		if st.written.ghost == nil {
			st.written.ghost = map[string]bool{}
		}
		st.written.ghost[key] = true
	}
}

// ghostInit returns the entry value of a ghost variable (a named symbol), by key prefix.
func (x *Exec) ghostInit(key string) *Term {
	switch {
	case strings.HasPrefix(key, "ncalls:"), strings.HasPrefix(key, "nok:"):
		return BVLit64(0, 64)
	case strings.HasPrefix(key, "lock:"):
		return IntLit(0)
	case strings.HasPrefix(key, "memsize:"):
		t := x.c.Named("G0_"+key, SBV(64))
		if !x.axiomSeen["g0:"+key] {
			x.axiomSeen["g0:"+key] = true
			// Wasm linear memory: whole 64 KiB pages, at most 4 GiB
			x.extraAxioms = append(x.extraAxioms, BVCmp("bvule", t, BVLit64(1<<32, 64)), Eq(BVBin("bvand", t, BVLit64(65535, 64)), BVLit64(0, 64)))
		}
		return t
	case strings.HasPrefix(key, "bigval:"):
		return x.c.Named("G0_"+key, SBV(128))
	case strings.HasPrefix(key, "bigneg:"):
		return x.c.Named("G0_"+key, SBool)
	case strings.HasPrefix(key, "memwords:"):
		return x.c.Named("G0_"+key, SArr(SBV(32), SBV(64)))
	}
	return nil
}

func (x *Exec) ghostGet(st *State, key string) *Term {
	if t, ok := st.ghost[key]; ok {
		return t
	}
	t := x.ghostInit(key)
	if t != nil {
		st.ghost[key] = t
	}
	return t
}

func (x *Exec) memSize(st *State, mem Value) *Term  { return x.ghostGet(st, "memsize:"+mem.L[1].String()) }
func (x *Exec) memWords(st *State, mem Value) *Term { return x.ghostGet(st, "memwords:"+mem.L[1].String()) }

// logCall records the arguments of a call in the ghost call log; a ghost counter per function tells
// specifications whether (and how often) the function was called.
func (x *Exec) logCall(st *State, name string, args []Value) {
	if st.calls == nil {
		st.calls = map[string][]Value{}
	}
	st.calls[name] = args
	k := "ncalls:" + name
	cur, ok := st.ghost[k]
	if !ok {
		cur = BVLit64(0, 64)
	}
	st.ghost[k] = BVBin("bvadd", cur, BVLit64(1, 64))
	if st.written != nil {
		if st.written.ghost == nil {
			st.written.ghost = map[string]bool{}
		}
		st.written.ghost[k] = true
		st.written.ghost["call:"+name] = true
	}
}

// freshLogEntry gives the ghost call log unconstrained entries (arguments and results) for a function that an
// abstracted callee may have called, unless the path already has them.
func (x *Exec) freshLogEntry(st *State, name string) {
	if st.calls == nil {
		st.calls = map[string][]Value{}
	}
	if x.logFuncs == nil {
		x.logFuncs = map[string]*ssa.Function{}
		for fn := range ssautil.AllFunctions(x.prog) {
			x.logFuncs[strings.ReplaceAll(fn.String(), modulePrefix, "")] = fn
		}
	}
	fn := x.logFuncs[name]
	if fn == nil {
		// an interface method "(pkg/path.Iface).Method": arguments (receiver first) and results from its signature
		if strings.HasPrefix(name, "(") {
			if i := strings.Index(name, ")."); i > 0 {
				if T := x.lookupType(name[1:i]); T != nil {
					if it, ok := T.Underlying().(*types.Interface); ok {
						for k := 0; k < it.NumMethods(); k++ {
							if m := it.Method(k); m.Name() == name[i+2:] {
								sig := m.Type().(*types.Signature)
								if _, ok := st.calls[name]; !ok {
									as := []Value{x.freshValue(st, "logarg", T)}
									for p := 0; p < sig.Params().Len(); p++ {
										as = append(as, x.freshValue(st, "logarg", sig.Params().At(p).Type()))
									}
									st.calls[name] = as
								}
								if _, ok := st.calls[name+"#ret"]; !ok {
									var rs []Value
									for r := 0; r < sig.Results().Len(); r++ {
										rs = append(rs, x.freshValue(st, "logret", sig.Results().At(r).Type()))
									}
									st.calls[name+"#ret"] = rs
								}
							}
						}
					}
				}
			}
		}
		return
	}
	if _, ok := st.calls[name]; !ok {
		var as []Value
		for _, p := range fn.Params {
			as = append(as, x.freshValue(st, "logarg", p.Type()))
		}
		st.calls[name] = as
	}
	if _, ok := st.calls[name+"#ret"]; !ok {
		var rs []Value
		for i := 0; i < fn.Signature.Results().Len(); i++ {
			rs = append(rs, x.freshValue(st, "logret", fn.Signature.Results().At(i).Type()))
		}
		st.calls[name+"#ret"] = rs
	}
}

func registerSpecBuiltins(x *Exec) {
	registerListSpecBuiltins(x)
	// lastarg("pkg.Func", i): i-th argument of the most recent call to the function (receiver is 0)
	x.specBuiltins["lastarg"] = func(sc *specScope, n *ECall) Value {
		lit, ok := n.Args[0].(*ELit)
		il, ok2 := n.Args[1].(*ELit)
		if !ok || !ok2 {
			unsup("spec: lastarg(\"func\", index)")
		}
		if sc.assumeMode {
			// a callee's clause about its own call log, stated in the caller: the callee's (abstracted) calls
			// become fresh entries of the caller's log
			x.freshLogEntry(sc.st, lit.Text)
		}
		as, ok := sc.st.calls[lit.Text]
		i := 0
		fmt.Sscanf(il.Text, "%d", &i)
		if !ok {
			x.freshLogEntry(sc.st, lit.Text)
			as, ok = sc.st.calls[lit.Text]
		}
		if !ok || i >= len(as) {
			unsup("spec: lastarg: no recorded call to %s on this path", lit.Text)
		}
		return as[i]
	}
	// bigval_hi(p) / bigval_lo(p): upper / lower 64 bits of the tracked value of the *big.Int p
	for _, half := range []string{"hi", "lo"} {
		half := half
		x.specBuiltins["bigval_"+half] = func(sc *specScope, n *ECall) Value {
			p := x.evalSpec0(sc, n.Args[0], nil)
			ref := p.L[0]
			if _, isI := p.T.Underlying().(*types.Interface); isI {
				ref = p.L[1]
			}
			v := x.ghostGet(sc.st, "bigval:"+ref.String())
			if half == "hi" {
				return scalar(types.Typ[types.Uint64], Extract(127, 64, v))
			}
			return scalar(types.Typ[types.Uint64], Extract(63, 0, v))
		}
	}
	// bigneg(p): the tracked value of the *big.Int p is negative
	x.specBuiltins["bigneg"] = func(sc *specScope, n *ECall) Value {
		p := x.evalSpec0(sc, n.Args[0], nil)
		ref := p.L[0]
		if _, isI := p.T.Underlying().(*types.Interface); isI {
			ref = p.L[1]
		}
		return boolV(x.ghostGet(sc.st, "bigneg:"+ref.String()))
	}
	// memsize(mem), memword(mem, off): ghost state of a runtime.Memory value
	x.specBuiltins["memsize"] = func(sc *specScope, n *ECall) Value {
		mv := x.evalSpec0(sc, n.Args[0], nil)
		return scalar(types.Typ[types.Uint64], x.memSize(sc.st, mv))
	}
	x.specBuiltins["memword"] = func(sc *specScope, n *ECall) Value {
		mv := x.evalSpec0(sc, n.Args[0], nil)
		off := x.evalSpec0(sc, n.Args[1], types.Typ[types.Uint32])
		return scalar(types.Typ[types.Uint64], Select(x.memWords(sc.st, mv), off.L[0]))
	}
	// lastret("pkg.Func", i): i-th result of the most recent abstracted call to the function
	x.specBuiltins["lastret"] = func(sc *specScope, n *ECall) Value {
		lit, ok := n.Args[0].(*ELit)
		il, ok2 := n.Args[1].(*ELit)
		if !ok || !ok2 {
			unsup("spec: lastret(\"func\", index)")
		}
		if sc.assumeMode {
			x.freshLogEntry(sc.st, lit.Text)
		}
		as, ok := sc.st.calls[lit.Text+"#ret"]
		i := 0
		fmt.Sscanf(il.Text, "%d", &i)
		if !ok {
			// no call on this path: the value is unconstrained (the clause must hold whatever it is)
			x.freshLogEntry(sc.st, lit.Text)
			as, ok = sc.st.calls[lit.Text+"#ret"]
		}
		if !ok || i >= len(as) {
			unsup("spec: lastret: no recorded call to %s on this path", lit.Text)
		}
		return as[i]
	}
	// ncalls("pkg.Func"): number of calls so far
	x.specBuiltins["ncalls"] = func(sc *specScope, n *ECall) Value {
		lit, ok := n.Args[0].(*ELit)
		if !ok {
			unsup("spec: ncalls(\"func\")")
		}
		if sc.assumeMode {
			unsup("spec: ncalls: no recorded call to %s in the caller's scope", lit.Text)
		}
		if t, ok := sc.st.ghost["ncalls:"+lit.Text]; ok {
			return scalar(tInt, t)
		}
		return scalar(tInt, BVLit64(0, 64))
	}
	// floating point in specifications: the same uninterpreted functions the code's operations are mapped to
	// fsub(a, b), fadd, fmul, fdiv; fofu(x) / fofi(x): float64 of an unsigned / signed integer; fconst("1"): a constant
	for _, op := range []string{"add", "sub", "mul", "div"} {
		op := op
		x.specBuiltins["f"+op] = func(sc *specScope, n *ECall) Value {
			a := x.evalSpec0(sc, n.Args[0], types.Typ[types.Float64])
			b := x.evalSpec0(sc, n.Args[1], types.Typ[types.Float64])
			x.c.declFun("fp."+op, []Sort{SBV(64), SBV(64)}, SBV(64))
			return scalar(types.Typ[types.Float64], Apply("fp."+op, SBV(64), a.L[0], b.L[0]))
		}
	}
	x.specBuiltins["fofu"] = func(sc *specScope, n *ECall) Value {
		a := x.evalSpec0(sc, n.Args[0], types.Typ[types.Uint64])
		t := a.L[0]
		if t.S.W < 64 {
			t = ZeroExt(t, 64)
		}
		x.c.declFun("fp.of_u64", []Sort{SBV(64)}, SBV(64))
		return scalar(types.Typ[types.Float64], Apply("fp.of_u64", SBV(64), t))
	}
	x.specBuiltins["fofi"] = func(sc *specScope, n *ECall) Value {
		a := x.evalSpec0(sc, n.Args[0], types.Typ[types.Int64])
		t := a.L[0]
		if t.S.W < 64 {
			t = SignExt(t, 64)
		}
		x.c.declFun("fp.of_i64", []Sort{SBV(64)}, SBV(64))
		return scalar(types.Typ[types.Float64], Apply("fp.of_i64", SBV(64), t))
	}
	x.specBuiltins["fconst"] = func(sc *specScope, n *ECall) Value {
		lit, ok := n.Args[0].(*ELit)
		if !ok {
			unsup("spec: fconst needs a literal")
		}
		return scalar(types.Typ[types.Float64], x.c.Named("flt_"+sanitize(strings.Trim(lit.Text, "\"")), SBV(64)))
	}
	// bytesCompare(a, b): the value bytes.Compare(a, b) returns (a, b: byte slices or byte arrays)
	x.specBuiltins["bytesCompare"] = func(sc *specScope, n *ECall) Value {
		a := x.evalSpec0(sc, n.Args[0], nil)
		b := x.evalSpec0(sc, n.Args[1], nil)
		return scalar(tInt, x.bytesCmpTerm(sc.st, a, b))
	}
	// instant(t): the instant (uninterpreted nanosecond count) of a time.Time value
	x.specBuiltins["instant"] = func(sc *specScope, n *ECall) Value {
		v := x.evalSpec0(sc, n.Args[0], nil)
		if len(v.L) < 2 {
			unsup("spec: instant of %s", v.T)
		}
		x.c.declFun("time.instant", []Sort{v.L[0].S, v.L[1].S}, SBV(64))
		return scalar(types.Typ[types.Int64], Apply("time.instant", SBV(64), v.L[0], v.L[1]))
	}
	// nok("(pkg.Iface).Method"): number of calls so far that succeeded (nil error / true; (true, nil) for a
	// (bool, error) result) -- maintained for interface methods with an assumed contract and for callees
	// with a contract
	x.specBuiltins["nok"] = func(sc *specScope, n *ECall) Value {
		lit, ok := n.Args[0].(*ELit)
		if !ok {
			unsup("spec: nok(\"func\")")
		}
		if sc.assumeMode {
			unsup("spec: nok: no recorded call to %s in the caller's scope", lit.Text)
		}
		if t, ok := sc.st.ghost["nok:"+lit.Text]; ok {
			return scalar(tInt, t)
		}
		return scalar(tInt, BVLit64(0, 64))
	}
	// lockfree(p) / lockheld(p): ghost state of the sync.Mutex / sync.RWMutex p points to, or of the
	// (first) mutex field of the struct p points to
	lockTerm := func(sc *specScope, n *ECall) *Term {
		v := x.evalSpec0(sc, n.Args[0], nil)
		loc := *x.ptrLoc(v)
		if stt, ok := loc.T.Underlying().(*types.Struct); ok && !strings.HasPrefix(typeName(loc.T), "sync.") {
			found := false
			for i := 0; i < stt.NumFields(); i++ {
				tn := typeName(stt.Field(i).Type())
				if tn == "sync.Mutex" || tn == "sync.RWMutex" {
					lo, hi := x.c.fieldRange(stt, i)
					loc.Lo, loc.Hi, loc.T = loc.Lo+lo, loc.Lo+hi, stt.Field(i).Type()
					found = true
					break
				}
			}
			if !found {
				unsup("spec: no mutex field in %s", typeName(v.T))
			}
		}
		if cur, ok := sc.st.ghost["lock:"+locKey(&loc)]; ok {
			return cur
		}
		return IntLit(0)
	}
	x.specBuiltins["lockfree"] = func(sc *specScope, n *ECall) Value { return boolV(Eq(lockTerm(sc, n), IntLit(0))) }
	x.specBuiltins["lockheld"] = func(sc *specScope, n *ECall) Value { return boolV(Eq(lockTerm(sc, n), IntLit(1))) }
	// isnew(v): the object v denotes (pointee, backing array, map) was allocated during this call
	x.specBuiltins["isnew"] = func(sc *specScope, n *ECall) Value {
		v := x.evalSpec0(sc, n.Args[0], nil)
		var cs []*Term
		for _, r := range x.refsOf(v) {
			cs = append(cs, IntCmp(">", r, sc.old.alloc))
		}
		return boolV(And(cs...))
	}
	// isold(v): the object v denotes exists in the current state (allocated no later than now); at a loop
	// head this separates objects of earlier iterations from the ones the next iteration will allocate
	x.specBuiltins["isold"] = func(sc *specScope, n *ECall) Value {
		v := x.evalSpec0(sc, n.Args[0], nil)
		var cs []*Term
		for _, r := range x.refsOf(v) {
			cs = append(cs, IntCmp("<=", r, sc.st.alloc))
		}
		return boolV(And(cs...))
	}
	// sameSlice(a, b): identical slice headers (same backing array, offset and length)
	x.specBuiltins["sameSlice"] = func(sc *specScope, n *ECall) Value {
		a := x.evalSpec0(sc, n.Args[0], nil)
		b := x.evalSpec0(sc, n.Args[1], nil)
		return boolV(And(Eq(a.L[0], b.L[0]), Eq(a.L[1], b.L[1]), Eq(a.L[2], b.L[2])))
	}
	x.specBuiltins["bytesEq"] = func(sc *specScope, n *ECall) Value {
		a := x.evalSpec0(sc, n.Args[0], nil)
		b := x.evalSpec0(sc, n.Args[1], nil)
		return boolV(x.bytesEqual(sc.st, a, b))
	}
	// dyn(x, "T"): the payload of interface value x viewed as a value of (pointer) type T
	x.specBuiltins["dyn"] = func(sc *specScope, n *ECall) Value {
		a := x.evalSpec0(sc, n.Args[0], nil)
		lit, ok := n.Args[1].(*ELit)
		if !ok {
			unsup("spec: dyn needs a type name string")
		}
		T := x.specType(sc, lit.Text)
		if T == nil {
			unsup("spec: dyn: unknown type %s", lit.Text)
		}
		return x.unbox(sc.st, Value{T: a.T, L: a.L}, T)
	}
	// param("name"): the value the parameter had at entry (parameters reassigned in the body are SSA phis)
	x.specBuiltins["param"] = func(sc *specScope, n *ECall) Value {
		lit, ok := n.Args[0].(*ELit)
		if !ok {
			unsup("spec: param needs a name string")
		}
		fn := sc.fr.fn
		for _, p := range fn.Params {
			if p.Name() == lit.Text {
				return sc.fr.env[p]
			}
		}
		unsup("spec: no parameter %s", lit.Text)
		return Value{}
	}
	// iserr(e): e != nil for error interface
	x.specBuiltins["iserr"] = func(sc *specScope, n *ECall) Value {
		a := x.evalSpec0(sc, n.Args[0], nil)
		return boolV(Not(Eq(a.L[0], IntLit(0))))
	}
}
