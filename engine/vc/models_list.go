package vc

import (
	"go/token"
	"go/types"
)

// container/list modelled as a sequence. A list l is the pair (len(l), at(l, 0..len-1)) of pseudo heap components
// "list#len" and "list#at" indexed by the list's reference; every element e carries its position "list#eidx"[e]
// and its list "list#elist"[e]. The links and the length field of the real structures are unexported and read
// only by the methods modelled here, so they are not represented. Operations at the back of the list (PushBack,
// Remove of the back element, Back, Prev) and Front, Len are exact; every other mutation leaves length and
// sequence of that list unconstrained. An element's Value lives in the heap as an ordinary field.
//
// Assumed (library invariant of container/list, for the lists that exist at entry): for every position i below the
// length, at(l, i) is a non-nil element whose recorded position is i and whose recorded list is l.
func (x *Exec) listComp(st *State, which string) (*Term, string) {
	var s Sort
	key := "list#" + which
	switch which {
	case "len", "eidx":
		s = SArr(SInt, idxSort)
	case "at":
		s = SArr(SInt, SArr(idxSort, SInt))
	case "elist":
		s = SArr(SInt, SInt)
	}
	if t, ok := st.heap[key]; ok {
		return t, key
	}
	pref := "H0_"
	if x.heapPrefix != "" {
		pref = x.heapPrefix
	}
	t := x.c.Named(pref+key, s)
	st.heap[key] = t
	x.rawSorts[key] = s
	if which != "at" {
		// make sure all four exist before the axiom is stated
		return t, key
	}
	if !x.axiomSeen["listwf:"+pref] && !x.inInit {
		x.axiomSeen["listwf:"+pref] = true
		ln, _ := x.listComp(st, "len")
		ei, _ := x.listComp(st, "eidx")
		el, _ := x.listComp(st, "elist")
		l := Var("l!lwf", SInt)
		i := Var("i!lwf", idxSort)
		e := Select(Select(t, l), i)
		x.extraAxioms = append(x.extraAxioms,
			Quant("forall", []*Term{l, i}, Implies(BVCmp("bvult", i, Select(ln, l)),
				And(IntCmp(">", e, IntLit(0)), Eq(Select(ei, e), i), Eq(Select(el, e), l),
					Implies(IntCmp("<=", l, x.c.Named("alloc0", SInt)), IntCmp("<=", e, x.c.Named("alloc0", SInt))))), e),
			Quant("forall", []*Term{l}, BVCmp("bvule", Select(ln, l), BVLit64(1<<40, 64)), Select(ln, l)))
		x.c.note("assumed: container/list invariant for lists existing at entry: the element at position i of a list is non-nil and records position i and that list")
	}
	return t, key
}

func (x *Exec) listLen(st *State, l *Term) *Term {
	ln, _ := x.listComp(st, "len")
	return Select(ln, l)
}

func (x *Exec) listAt(st *State, l, i *Term) *Term {
	at, _ := x.listComp(st, "at")
	return Select(Select(at, l), i)
}

func (x *Exec) listElemPtr(e *Term) Value {
	et := x.lookupType("container/list.Element")
	if et == nil {
		unsup("container/list.Element not loaded")
	}
	return Value{T: types.NewPointer(et), L: []*Term{e}}
}

func (x *Exec) listValueLoc(e Value) *Loc {
	loc := *x.ptrLoc(e)
	stt := loc.T.Underlying().(*types.Struct)
	for i := 0; i < stt.NumFields(); i++ {
		if stt.Field(i).Name() == "Value" {
			lo, hi := x.c.fieldRange(stt, i)
			loc.Lo, loc.Hi, loc.T = loc.Lo+lo, loc.Lo+hi, stt.Field(i).Type()
		}
	}
	return &loc
}

// listForget: length and sequence of list l become unknown (a mutation that is not modelled exactly)
func (x *Exec) listForget(st *State, l *Term, newLen *Term) {
	ln, lk := x.listComp(st, "len")
	at, ak := x.listComp(st, "at")
	if newLen == nil {
		newLen = x.c.Fresh("listlen", idxSort)
		st.assume(BVCmp("bvule", newLen, BVLit64(1<<40, 64)))
	}
	x.setRaw(st, lk, Store(ln, l, newLen))
	x.setRaw(st, ak, Store(at, l, x.c.Fresh("listseq", SArr(idxSort, SInt))))
	// recorded positions are stale after an unmodelled mutation: all forgotten
	_, ik := x.listComp(st, "eidx")
	x.setLinks(st, ik, x.c.Fresh("listeidx", SArr(SInt, idxSort)))
	_, ek := x.listComp(st, "elist")
	x.setLinks(st, ek, x.c.Fresh("listelist", SArr(SInt, SInt)))
}

// setLinks writes one of the two element-side components (position, owning list). They stand for the unexported
// links of list elements, which only the modelled methods read: writes to them are not subject to the frame
// check of the function under contract, and a callee that modifies a list invalidates them wholesale
// (listForget), so no caller relies on a stale value.
func (x *Exec) setLinks(st *State, key string, t *Term) {
	x.frameOff++
	x.setRaw(st, key, t)
	x.frameOff--
}

func registerListModels(m map[string]Model) {
	listNote := "assumed: container/list behaves as a sequence: PushBack appends a new element holding the value, Remove of the back element drops it, Back/Front/Prev/Len read the sequence; links are not represented"
	m["container/list.New"] = func(x *Exec, fr *Frame, st *State, args []Value, pos token.Pos) []Outcome {
		x.c.note(listNote)
		lt := x.lookupType("container/list.List")
		if lt == nil {
			unsup("container/list.List not loaded")
		}
		ref := x.newRef(st, "list")
		lv := Value{T: types.NewPointer(lt), L: []*Term{ref}}
		x.store(st, x.ptrLoc(lv), x.zero(lt))
		ln, lk := x.listComp(st, "len")
		x.listComp(st, "at")
		x.setRaw(st, lk, Store(ln, ref, BVLit64(0, 64)))
		return retOne(st, lv)
	}
	m["(*container/list.List).Init"] = func(x *Exec, fr *Frame, st *State, args []Value, pos token.Pos) []Outcome {
		x.c.note(listNote)
		x.listForget(st, args[0].L[0], BVLit64(0, 64))
		return retOne(st, args[0])
	}
	reorder := func(x *Exec, fr *Frame, st *State, args []Value, pos token.Pos) []Outcome {
		x.c.note(listNote)
		x.guardAccess(st, args[0].L[0], true)
		l := args[0].L[0]
		x.listForget(st, l, x.listLen(st, l))
		return []Outcome{{St: st, Kind: OutReturn}}
	}
	for _, n := range []string{"MoveToFront", "MoveToBack", "MoveBefore", "MoveAfter"} {
		m["(*container/list.List)."+n] = reorder
	}
	m["(*container/list.List).Remove"] = func(x *Exec, fr *Frame, st *State, args []Value, pos token.Pos) []Outcome {
		x.c.note(listNote)
		x.guardAccess(st, args[0].L[0], true)
		l, e := args[0].L[0], args[1].L[0]
		n := x.listLen(st, l)
		at, ak := x.listComp(st, "at")
		ln, lk := x.listComp(st, "len")
		el, ek := x.listComp(st, "elist")
		last := BVBin("bvsub", n, BVLit64(1, 64))
		isBack := x.define(st, "rm_back", And(Not(Eq(n, BVLit64(0, 64))), Eq(Select(Select(at, l), last), e)))
		inList := Eq(Select(el, e), l)
		nl := x.c.Fresh("listlen", idxSort)
		na := x.c.Fresh("listseq", SArr(idxSort, SInt))
		st.assume(BVCmp("bvule", nl, BVLit64(1<<40, 64)))
		st.assume(Implies(isBack, And(Eq(nl, last), Eq(na, Select(at, l)))))
		// an element of another list (or of none) is not removed
		st.assume(Implies(Not(inList), And(Eq(nl, n), Eq(na, Select(at, l)))))
		x.setRaw(st, lk, Store(ln, l, nl))
		x.setRaw(st, ak, Store(at, l, na))
		x.setLinks(st, ek, Store(el, e, Ite(inList, IntLit(0), Select(el, e))))
		ei, ik := x.listComp(st, "eidx")
		x.setLinks(st, ik, Ite(Or(isBack, Not(inList)), ei, x.c.Fresh("listeidx", SArr(SInt, idxSort))))
		return retOne(st, x.load(st, x.listValueLoc(args[1])))
	}
	push := func(back bool) Model {
		return func(x *Exec, fr *Frame, st *State, args []Value, pos token.Pos) []Outcome {
			x.c.note(listNote)
			x.guardAccess(st, args[0].L[0], true)
			l := args[0].L[0]
			et := x.lookupType("container/list.Element")
			if et == nil {
				unsup("container/list.Element not loaded")
			}
			ref := x.newRef(st, "listelem")
			ev := Value{T: types.NewPointer(et), L: []*Term{ref}}
			x.store(st, x.ptrLoc(ev), x.freshValue(st, "elem", et))
			x.store(st, x.listValueLoc(ev), args[1])
			n := x.listLen(st, l)
			st.assume(BVCmp("bvult", n, BVLit64(1<<40, 64)))
			at, ak := x.listComp(st, "at")
			ln, lk := x.listComp(st, "len")
			ei, ik := x.listComp(st, "eidx")
			el, ek := x.listComp(st, "elist")
			_ = ei
			x.setRaw(st, lk, Store(ln, l, BVBin("bvadd", n, BVLit64(1, 64))))
			if back {
				x.setRaw(st, ak, Store(at, l, Store(Select(at, l), n, ref)))
				x.setLinks(st, ik, Store(ei, ref, n))
			} else {
				x.setRaw(st, ak, Store(at, l, x.c.Fresh("listseq", SArr(idxSort, SInt))))
				x.setLinks(st, ik, x.c.Fresh("listeidx", SArr(SInt, idxSort)))
			}
			x.setLinks(st, ek, Store(el, ref, l))
			return retOne(st, ev)
		}
	}
	m["(*container/list.List).PushBack"] = push(true)
	m["(*container/list.List).PushFront"] = push(false)
	m["(*container/list.List).Back"] = func(x *Exec, fr *Frame, st *State, args []Value, pos token.Pos) []Outcome {
		x.c.note(listNote)
		x.guardAccess(st, args[0].L[0], false)
		l := args[0].L[0]
		n := x.listLen(st, l)
		e := x.define(st, "listback", Ite(Eq(n, BVLit64(0, 64)), IntLit(0), x.listAt(st, l, BVBin("bvsub", n, BVLit64(1, 64)))))
		st.assume(IntCmp("<=", e, st.alloc))
		st.assume(IntCmp(">=", e, IntLit(0)))
		return retOne(st, x.listElemPtr(e))
	}
	m["(*container/list.List).Front"] = func(x *Exec, fr *Frame, st *State, args []Value, pos token.Pos) []Outcome {
		x.c.note(listNote)
		x.guardAccess(st, args[0].L[0], false)
		l := args[0].L[0]
		n := x.listLen(st, l)
		e := x.define(st, "listfront", Ite(Eq(n, BVLit64(0, 64)), IntLit(0), x.listAt(st, l, BVLit64(0, 64))))
		st.assume(IntCmp("<=", e, st.alloc))
		st.assume(IntCmp(">=", e, IntLit(0)))
		return retOne(st, x.listElemPtr(e))
	}
	m["(*container/list.List).Len"] = func(x *Exec, fr *Frame, st *State, args []Value, pos token.Pos) []Outcome {
		x.c.note(listNote)
		x.guardAccess(st, args[0].L[0], false)
		n := x.listLen(st, args[0].L[0])
		st.assume(BVCmp("bvule", n, BVLit64(1<<40, 64)))
		return retOne(st, scalar(tInt, n))
	}
	// e.Prev(): the element before e in its list (nil for the first element and for an element of no list)
	m["(*container/list.Element).Prev"] = func(x *Exec, fr *Frame, st *State, args []Value, pos token.Pos) []Outcome {
		x.c.note(listNote)
		e := args[0].L[0]
		ei, _ := x.listComp(st, "eidx")
		el, _ := x.listComp(st, "elist")
		x.listComp(st, "at")
		l, i := Select(el, e), Select(ei, e)
		p := x.define(st, "listprev", Ite(Or(Eq(l, IntLit(0)), Eq(i, BVLit64(0, 64))), IntLit(0), x.listAt(st, l, BVBin("bvsub", i, BVLit64(1, 64)))))
		st.assume(IntCmp("<=", p, st.alloc))
		st.assume(IntCmp(">=", p, IntLit(0)))
		return retOne(st, x.listElemPtr(p))
	}
	m["(*container/list.Element).Next"] = func(x *Exec, fr *Frame, st *State, args []Value, pos token.Pos) []Outcome {
		x.c.note(listNote)
		e := args[0].L[0]
		ei, _ := x.listComp(st, "eidx")
		el, _ := x.listComp(st, "elist")
		x.listComp(st, "at")
		l, i := Select(el, e), Select(ei, e)
		nx := BVBin("bvadd", i, BVLit64(1, 64))
		p := x.define(st, "listnext", Ite(Or(Eq(l, IntLit(0)), Not(BVCmp("bvult", nx, x.listLen(st, l)))), IntLit(0), x.listAt(st, l, nx)))
		st.assume(IntCmp("<=", p, st.alloc))
		st.assume(IntCmp(">=", p, IntLit(0)))
		return retOne(st, x.listElemPtr(p))
	}
}

// spec builtins: listlen(l) and listat(l, i) read the sequence of a *list.List
func registerListSpecBuiltins(x *Exec) {
	x.specBuiltins["listlen"] = func(sc *specScope, n *ECall) Value {
		l := x.evalSpec0(sc, n.Args[0], nil)
		x.listComp(sc.st, "at")
		return scalar(tInt, x.listLen(sc.st, l.L[0]))
	}
	// mapget(m, k): m[k] with Go's semantics (the zero value when k is absent or m is nil); the plain
	// specification form m[k] denotes the stored value and is meaningful only under in(m, k)
	x.specBuiltins["mapget"] = func(sc *specScope, n *ECall) Value {
		base := x.evalSpec0(sc, n.Args[0], nil)
		mf := x.mapFam(base.T)
		k := x.evalSpec0(sc, n.Args[1], mf.K).L[0]
		val := Value{T: mf.V}
		dom, _ := x.mapComp(sc.st, mf, "dom", 0)
		present := And(Not(Eq(base.L[0], IntLit(0))), Select(Select(dom, base.L[0]), k))
		z := x.zero(mf.V)
		for j := range x.c.leaves(mf.V) {
			vc, _ := x.mapComp(sc.st, mf, "val", j)
			val.L = append(val.L, Ite(present, Select(Select(vc, base.L[0]), k), z.L[j]))
		}
		return val
	}
	x.specBuiltins["listat"] = func(sc *specScope, n *ECall) Value {
		l := x.evalSpec0(sc, n.Args[0], nil)
		i := x.idx64(x.evalSpec0(sc, n.Args[1], tInt))
		return x.listElemPtr(x.listAt(sc.st, l.L[0], i))
	}
}
