package vc

import (
	"os"
	"fmt"
	"go/token"
	"go/types"
	"sort"
	"strings"
	"time"

	"golang.org/x/tools/go/ssa"
)

var panicKinds = map[string]bool{"nil": true, "idx": true, "slice": true, "div": true, "assert": true, "make": true, "shift": true, "panic": true, "nilmap": true}

type Model func(x *Exec, fr *Frame, st *State, args []Value, pos token.Pos) []Outcome

type globFact struct {
	ref *Term
	val *Term
	idx []*Term
}

// FuncResult is the outcome of generating VCs for one function.
type FuncResult struct {
	Key         string
	Pos         string
	Obligations []*Obligation
	Unsupported string
	Paths       int
	Instrs      int
	Returns     []*pcNode // path conditions of returning paths (vacuity check)
	Covers      map[string][]coverInst // per ensures clause "A ==> B": (return path, A) pairs -- A must be reachable on some path
	CoverOrder  []string
	EntryPC     *pcNode
	Exec        *Exec
	GenTime     time.Duration
	ParamTerms  []ParamTerm
}

type ParamTerm struct {
	Name string
	T    types.Type
	V    Value
}

type Engine struct {
	C         *Ctx
	Prog      *ssa.Program
	Fset      *token.FileSet
	Contracts map[string]*FuncContract
	Specs     *SpecEnv
	Lemmas    []*Lemma
	Models    map[string]Model
	InlineExt map[string]bool
	MaxPaths  int
	MaxInline int
	// PreferInline: execute callee bodies instead of applying their contracts (used to concretise
	// counterexamples for replay; never used for proving).
	PreferInline bool
	EagerInit    []string // package paths whose initialisers are executed before every function
}

func (e *Engine) newExec(fn *ssa.Function, fc *FuncContract) *Exec {
	x := &Exec{c: NewCtx(), prog: e.Prog, fset: e.Fset, heapInfo: map[string]heapInfo{}, defs: map[string]*Term{}, obls: map[string]*Obligation{},
		contracts: e.Contracts, specs: e.Specs, top: fn, maxPaths: e.MaxPaths, maxInline: e.MaxInline,
		loopInfos: map[*ssa.Function]*loopInfo{}, posText: map[*ssa.Function]map[token.Pos]string{}, srcCache: map[string][]byte{},
		autoInv: map[autoKey]autoInvRec{}, fnCells: map[string]*FuncVal{}, locOf: map[string]*Loc{}, axiomSeen: map[string]bool{}, rawSorts: map[string]Sort{}, dynTags: map[string]int{},
		models: e.Models, inlineExt: e.InlineExt, usedContracts: map[string]bool{}, globFacts: map[string][]globFact{},
		initDone: map[*ssa.Package]bool{}, globConstOK: map[*ssa.Global]bool{}, ghostVars: map[string]func(*specScope) Value{}, specBuiltins: map[string]func(*specScope, *ECall) Value{}}
	x.c.Prog = e.Prog
	x.preferInline = e.PreferInline
	x.topName = contractKey(fn)
	if fc != nil {
		x.noPanic = fc.NoPanic
		x.checkLocks = fc.CheckLocks
		if fc.MaxInline > 0 {
			x.maxInline = fc.MaxInline
		}
	}
	registerSpecBuiltins(x)
	return x
}

// GenVCs symbolically executes fn under contract fc and returns its obligations.
func (e *Engine) GenVCs(fn *ssa.Function, fc *FuncContract) (res *FuncResult) {
	t0 := time.Now()
	x := e.newExec(fn, fc)
	res = &FuncResult{Key: contractKey(fn), Pos: e.Fset.Position(fn.Pos()).String(), Exec: x}
	defer func() {
		res.GenTime = time.Since(t0)
		res.Paths = x.Stats.Paths
		res.Instrs = x.Stats.Instrs
		if r := recover(); r != nil {
			if u, ok := r.(unsupported); ok {
				res.Unsupported = u.msg
			} else {
				res.Unsupported = fmt.Sprintf("engine error: %v", r)
				if debugPanics {
					panic(r)
				}
			}
		}
		for _, k := range x.oblOrder {
			res.Obligations = append(res.Obligations, x.obls[k])
		}
	}()
	if len(fn.Blocks) == 0 {
		unsup("no body")
	}
	st := &State{heap: map[string]*Term{}, ghost: map[string]*Term{}}
	st.alloc = x.c.Named("alloc0", SInt)
	st.assume(IntCmp(">=", st.alloc, IntLit(0)))
	// eager init of the function's own package (constant globals)
	if fn.Pkg != nil {
		x.ensureInit(fn.Pkg)
	} else if fn.Origin() != nil && fn.Origin().Pkg != nil {
		x.ensureInit(fn.Origin().Pkg)
	} else if fn.Parent() != nil && fn.Parent().Pkg != nil {
		x.ensureInit(fn.Parent().Pkg)
	}
	for _, path := range append([]string{"io"}, e.EagerInit...) {
		if p := e.Prog.ImportedPackage(path); p != nil {
			x.ensureInit(p)
		}
	}
	fr := &Frame{fn: fn, env: map[ssa.Value]Value{}, names: map[string]ssa.Value{}, loopSnap: map[*ssa.BasicBlock]*loopSnap{}, loopIter: map[*ssa.BasicBlock]int{}, fc: fc}
	var args []Value
	for _, p := range fn.Params {
		v := x.freshValue(st, "p_"+p.Name(), p.Type())
		x.paramNonNeg(st, v)
		fr.env[p] = v
		fr.names[p.Name()] = p
		args = append(args, v)
		res.ParamTerms = append(res.ParamTerms, ParamTerm{Name: p.Name(), T: p.Type(), V: v})
	}
	for _, fv := range fn.FreeVars {
		v := x.freshValue(st, "fv_"+fv.Name(), fv.Type())
		x.paramNonNeg(st, v)
		if len(v.L) == 1 && v.L[0] != nil && v.L[0].S == SInt {
			// the address of a captured variable is never nil
			st.assume(Not(Eq(v.L[0], IntLit(0))))
		}
		fr.env[fv] = v
		fr.names[fv.Name()] = fv
	}
	fr.args = args
	if fc != nil {
		x.applyDyn(fr, st, fc, nil, "")
		fr.entry = st
		for _, rq := range fc.Requires {
			v := x.evalSpec(&specScope{x: x, fr: fr, st: st, old: st}, rq.Expr)
			st.assume(v.L[0])
		}
		for _, rq := range fc.Assumes {
			v := x.evalSpec(&specScope{x: x, fr: fr, st: st, old: st}, rq.Expr)
			st.assume(v.L[0])
			x.c.note("assume clause in contract of %s: %s", res.Key, rq.Src)
		}
	}
	fr.entry = st.clone()
	res.EntryPC = st.pc
	if fc != nil {
		for _, g := range fc.Guarded {
			sc := &specScope{x: x, fr: fr, st: st, old: st}
			key := x.mutexKey(x.evalSpec(sc, g.Lock))
			for _, oe := range g.Objs {
				ov := x.evalSpec(sc, oe)
				_, isMap := ov.T.Underlying().(*types.Map)
				for _, r := range x.refsOf(ov) {
					x.guards = append(x.guards, guard{isMap: isMap, lockKey: key, ref: r, what: strings.Join(strings.Fields(exprString(oe)), "")})
				}
			}
		}
	}
	if fc != nil && !fc.ModAll {
		x.frameOn = true
		x.alloc0 = st.alloc
		for _, m := range fc.Modifies {
			if id, ok := m.(*EIdent); ok && strings.HasPrefix(id.Name, "fam_") {
				unsup("modifies fam_* is only allowed on trusted contracts")
			}
			msc := &specScope{x: x, fr: fr, st: st, old: st}
			v := x.evalSpec(msc, m)
			// a frame entry reached through a nil pointer denotes nothing (it must not stand for an arbitrary
			// existing object, which a field read at the nil reference would)
			def := x.specDefined(msc, m)
			for _, r := range x.refsOf(v) {
				x.modRefs = append(x.modRefs, Ite(def, r, IntLit(0)))
			}
		}
	}
	outs := x.run(fr, st, fn.Blocks[0], nil, 0)
	sigRes := fn.Signature.Results()
	for _, o := range outs {
		x.Stats.Paths++
		if o.Kind != OutReturn {
			continue
		}
		res.Returns = append(res.Returns, o.St.pc)
		if os.Getenv("VCHECK_DEBUG") != "" {
			n, np := 0, 0
			for _, t := range o.St.pcList() {
				n++
				if strings.Contains(t.String(), "path!") {
					np++
				}
			}
			fmt.Fprintf(os.Stderr, "  [return path: %d pc terms, %d mention merge guards]\n", n, np)
		}
		if fc == nil {
			continue
		}
		pfr := fr
		if o.Fr != nil && o.Fr.fn == fn && o.Fr.depth == fr.depth {
			pfr = o.Fr // this path's bindings of local names
		}
		sc := &specScope{x: x, fr: pfr, st: o.St, old: fr.entry, results: map[string]Value{}, bound: map[string]Value{}}
		// in postconditions parameter names denote the values passed in (as at call sites), whatever
		// the body did to its local copies or shadowed them with
		for i, p := range fn.Params {
			sc.bound[p.Name()] = args[i]
		}
		for i := 0; i < sigRes.Len() && i < len(o.Rets); i++ {
			if n := sigRes.At(i).Name(); n != "" && n != "_" {
				sc.results[n] = o.Rets[i]
			}
			sc.results[fmt.Sprintf("result%d", i)] = o.Rets[i]
			if sigRes.Len() == 1 {
				sc.results["result"] = o.Rets[i]
			}
		}
		for _, en := range fc.Ensures {
			v := x.evalSpec(sc, en.Expr)
			x.oblige(nil, o.St, "post", en.Label, fn.Pos(), v.L[0])
			if b, ok := en.Expr.(*EBin); ok && b.Op == "==>" {
				func() {
					defer func() { recover() }()
					a := x.evalSpec(sc, b.X)
					if res.Covers == nil {
						res.Covers = map[string][]coverInst{}
					}
					if _, seen := res.Covers[en.Label]; !seen {
						res.CoverOrder = append(res.CoverOrder, en.Label)
					}
					res.Covers[en.Label] = append(res.Covers[en.Label], coverInst{PC: o.St.pc, Cond: a.L[0]})
				}()
			}
		}
	}
	return res
}

type coverInst struct {
	PC   *pcNode
	Cond *Term
}

var debugPanics = false

func SetDebugPanics(b bool) { debugPanics = b }

// paramNonNeg: parameters never alias package-level variables (assumption A-globals).
func (x *Exec) paramNonNeg(st *State, v Value) {
	for i, l := range x.c.leaves(v.T) {
		if l.Dims == 0 && (l.Kind == 'r' || l.Kind == 'p') {
			st.assume(IntCmp(">=", v.L[i], IntLit(0)))
		}
	}
}

// ---------- package initialisers: constant globals ----------

func (x *Exec) globalConst(g *ssa.Global) (Value, bool) {
	return Value{}, false
}

// ensureInit runs the package initialiser symbolically once and records, for every global that is
// never written outside init, the facts "entry heap at &g == initial value".
func (x *Exec) ensureInit(pkg *ssa.Package) {
	if x.initDone[pkg] || x.inInit {
		return
	}
	x.initDone[pkg] = true
	initFn := pkg.Func("init")
	if initFn == nil || len(initFn.Blocks) == 0 {
		return
	}
	written := writtenGlobals(pkg)
	savedTop, savedName, savedNoPanic := x.top, x.topName, x.noPanic
	savedPaths := x.paths
	savedIns, savedFr, savedSt, savedPrefix := x.curIns, x.curFr, x.curSt, x.heapPrefix
	x.inInit = true
	x.initPkg = pkg
	defer func() {
		x.inInit = false
		x.top, x.topName, x.noPanic = savedTop, savedName, savedNoPanic
		x.paths = savedPaths
		x.curIns, x.curFr, x.curSt, x.heapPrefix = savedIns, savedFr, savedSt, savedPrefix
		if r := recover(); r != nil {
			x.c.note("package initialiser of %s not executable symbolically (%v): its globals are unconstrained", pkg.Pkg.Path(), r)
		}
	}()
	st := &State{heap: map[string]*Term{}, ghost: map[string]*Term{}, dry: true}
	st.alloc = x.c.Named("alloc_init_"+sanitize(pkg.Pkg.Path()), SInt)
	st.assume(IntCmp(">=", st.alloc, IntLit(0)))
	x.heapPrefix = "HI_" + sanitize(pkg.Pkg.Path()) + "_"
	outs := x.runFunc(st, initFn, nil, nil, "init", 0, nil)
	x.heapPrefix = ""
	var final *State
	n := 0
	for _, o := range outs {
		if o.Kind == OutReturn {
			final = o.St
			n++
		}
	}
	if n != 1 {
		x.c.note("package initialiser of %s has %d paths: globals unconstrained", pkg.Pkg.Path(), n)
		return
	}
	var names []string
	for name, m := range pkg.Members {
		if g, ok := m.(*ssa.Global); ok && !written[g] {
			names = append(names, name)
			_ = g
		}
	}
	sort.Strings(names)
	for _, name := range names {
		g := pkg.Members[name].(*ssa.Global)
		if strings.HasPrefix(name, "init$") {
			continue
		}
		func() {
			defer func() { recover() }()
			addr := x.globalAddr(g)
			loc := addr.Loc
			for j := loc.Lo; j < loc.Hi; j++ {
				key := compKey(loc.Fam, j)
				cur, ok := final.heap[key]
				if !ok {
					continue
				}
				val := Select(cur, loc.Ref)
				// only keep facts that do not mention the init heap symbols
				syms := map[string]bool{}
				val.FreeConsts(syms)
				bad := false
				for s := range syms {
					if strings.HasPrefix(s, "HI_") {
						bad = true
					}
				}
				_ = bad // facts over the (unconstrained) pre-init heap are still sound: they only pin what init wrote
				x.heapInfo[key] = heapInfo{loc.Fam, loc.RootT, j}
				x.globFacts[key] = append(x.globFacts[key], globFact{ref: loc.Ref, val: val})
				x.globConstOK[g] = true
			}
		}()
	}
	x.initPC = append(x.initPC, final.pcList()...)
	// everything a package initialiser allocated exists before the verified function runs
	x.initPC = append(x.initPC, IntCmp("<=", final.alloc, x.c.Named("alloc0", SInt)))
}

// touchGlobal makes sure the initialiser of g's package has been executed; facts about constant
// globals discovered late are asserted on the current state (constant globals are never written).
func (x *Exec) touchGlobal(g *ssa.Global) {
	pkg := g.Pkg
	if pkg == nil || x.initDone[pkg] || x.inInit {
		return
	}
	before := map[string]int{}
	for k, fs := range x.globFacts {
		before[k] = len(fs)
	}
	x.ensureInit(pkg)
	for _, k := range sortedKeys(x.globFacts) {
		if len(x.globFacts[k]) == before[k] {
			continue
		}
		if h0 := x.initialHeapSym(k); h0 != nil {
			x.assumeGlobFacts(nil, k, h0)
		}
	}
}

// writtenGlobals returns the globals of pkg that may be written outside the package initialiser
// (stored to directly, through a derived address, or whose address escapes).
func writtenGlobals(pkg *ssa.Package) map[*ssa.Global]bool {
	out := map[*ssa.Global]bool{}
	var fns []*ssa.Function
	var addFn func(f *ssa.Function)
	seen := map[*ssa.Function]bool{}
	addFn = func(f *ssa.Function) {
		if f == nil || seen[f] {
			return
		}
		seen[f] = true
		fns = append(fns, f)
		for _, a := range f.AnonFuncs {
			addFn(a)
		}
	}
	for _, m := range pkg.Members {
		switch v := m.(type) {
		case *ssa.Function:
			addFn(v)
		case *ssa.Type:
			for _, T := range []types.Type{v.Type(), types.NewPointer(v.Type())} {
				ms := pkg.Prog.MethodSets.MethodSet(T)
				for i := 0; i < ms.Len(); i++ {
					addFn(pkg.Prog.MethodValue(ms.At(i)))
				}
			}
		}
	}
	root := func(v ssa.Value) *ssa.Global {
		for {
			switch t := v.(type) {
			case *ssa.Global:
				return t
			case *ssa.FieldAddr:
				v = t.X
			case *ssa.IndexAddr:
				v = t.X
			default:
				return nil
			}
		}
	}
	for _, f := range fns {
		isInit := f.Name() == "init" && f.Parent() == nil
		for _, b := range f.Blocks {
			for _, ins := range b.Instrs {
				switch in := ins.(type) {
				case *ssa.Store:
					if g := root(in.Addr); g != nil && !isInit {
						out[g] = true
					}
					if g := root(in.Val); g != nil {
						out[g] = true // address escapes
					}
				case *ssa.UnOp, *ssa.FieldAddr, *ssa.IndexAddr, *ssa.DebugRef:
					// reads / address computations are fine
				case *ssa.Slice:
					if g := root(in.X); g != nil {
						// a slice of a global array may be written through; treat as written unless in init
						out[g] = true
					}
				default:
					for _, op := range ins.Operands(nil) {
						if *op == nil {
							continue
						}
						if g := root(*op); g != nil && !isInit {
							out[g] = true
						}
					}
				}
			}
		}
	}
	return out
}

// specDefined: every pointer dereferenced along the selector chain of e is non-nil
func (x *Exec) specDefined(sc *specScope, e Expr) *Term {
	switch n := e.(type) {
	case *ESel:
		if id, ok := n.X.(*EIdent); ok {
			if _, ok := x.specPkgMember(sc, id.Name, n.Name); ok {
				return True
			}
		}
		d := x.specDefined(sc, n.X)
		base := x.evalSpec0(sc, n.X, nil)
		if _, isPtr := base.T.Underlying().(*types.Pointer); isPtr && len(base.L) == 1 && base.L[0] != nil {
			return And(d, Not(Eq(base.L[0], IntLit(0))))
		}
		return d
	case *EIndex:
		return x.specDefined(sc, n.X)
	case *ECall:
		d := True
		for _, a := range n.Args {
			if _, isLit := a.(*ELit); isLit {
				continue
			}
			d = And(d, x.specDefined(sc, a))
		}
		return d
	}
	return True
}
