package vc

import (
	"fmt"
	"go/token"
	"go/types"
	"strings"

	"golang.org/x/tools/go/ssa"
)

func knownNonNil(v ssa.Value) bool {
	switch v.(type) {
	case *ssa.Alloc, *ssa.Global, *ssa.FieldAddr, *ssa.IndexAddr, *ssa.MakeSlice, *ssa.MakeMap, *ssa.MakeClosure:
		return true
	}
	return false
}

func (x *Exec) nilCheck(fr *Frame, st *State, ptr ssa.Value, pv Value, pos token.Pos, what string) {
	if knownNonNil(ptr) {
		return
	}
	loc := x.ptrLoc(pv)
	if loc.Ref.IsLit && loc.Ref.Val.Sign() != 0 {
		return
	}
	x.oblige(fr, st, "nil", x.src(fr.fn, pos, what), pos, Not(Eq(loc.Ref, IntLit(0))))
	st.assume(Not(Eq(loc.Ref, IntLit(0))))
}

// idx64 converts an integer index value to a 64-bit term (sign- or zero-extended).
func (x *Exec) idx64(v Value) *Term {
	t := v.L[0]
	if t.S.K != 'v' {
		unsup("index of sort %s", t.S)
	}
	if t.S.W == 64 {
		return t
	}
	if t.S.W > 64 {
		unsup("index wider than 64 bits")
	}
	if isSigned(v.T) {
		return SignExt(t, 64)
	}
	return ZeroExt(t, 64)
}

func (x *Exec) step(fr *Frame, st *State, ins ssa.Instruction) {
	switch in := ins.(type) {
	case *ssa.Alloc:
		et := in.Type().(*types.Pointer).Elem()
		fam, root, _ := x.c.famOf(et)
		ref := x.newRef(st, in.Comment)
		loc := &Loc{Fam: fam, RootT: root, Ref: ref, Lo: 0, Hi: len(x.c.leaves(root)), T: et}
		x.store(st, loc, x.zero(et))
		fr.env[in] = Value{T: in.Type(), L: []*Term{ref}}
		if in.Comment != "" {
			fr.names[in.Comment] = in
		}
	case *ssa.UnOp:
		x.unop(fr, st, in)
	case *ssa.BinOp:
		a, b := x.val(fr, in.X), x.val(fr, in.Y)
		fr.env[in] = x.defineValue(st, in.Name(), x.binop(fr, st, in.Op, a, b, in.Type(), in.Pos()))
	case *ssa.Convert:
		fr.env[in] = x.convert(fr, st, x.val(fr, in.X), in.Type(), in.Pos())
	case *ssa.ChangeType:
		v := x.val(fr, in.X)
		v.T = in.Type()
		fr.env[in] = v
	case *ssa.ChangeInterface:
		v := x.val(fr, in.X)
		v.T = in.Type()
		fr.env[in] = v
	case *ssa.MakeInterface:
		fr.env[in] = x.makeInterface(st, x.val(fr, in.X), in.Type())
	case *ssa.TypeAssert:
		x.typeAssert(fr, st, in)
	case *ssa.Extract:
		t := x.val(fr, in.Tuple)
		if in.Index >= len(t.Tup) {
			unsup("extract %d of %d-tuple", in.Index, len(t.Tup))
		}
		fr.env[in] = t.Tup[in.Index]
	case *ssa.Field:
		v := x.val(fr, in.X)
		stt := v.T.Underlying().(*types.Struct)
		lo, hi := x.c.fieldRange(stt, in.Field)
		fr.env[in] = Value{T: in.Type(), L: v.L[lo:hi]}
	case *ssa.FieldAddr:
		pv := x.val(fr, in.X)
		x.nilCheck(fr, st, in.X, pv, in.Pos(), "field")
		loc := *x.ptrLoc(pv)
		stt := loc.T.Underlying().(*types.Struct)
		lo, hi := x.c.fieldRange(stt, in.Field)
		loc.Lo, loc.Hi = loc.Lo+lo, loc.Lo+hi
		loc.T = stt.Field(in.Field).Type()
		loc.Idx = append([]*Term(nil), loc.Idx...)
		fr.env[in] = Value{T: in.Type(), L: []*Term{nil}, Loc: &loc}
	case *ssa.Index:
		v := x.val(fr, in.X)
		i := x.idx64(x.val(fr, in.Index))
		if isString(v.T) {
			x.oblige(fr, st, "idx", x.src(fr.fn, in.Pos(), "index"), in.Pos(), BVCmp("bvult", i, Apply("str.len", idxSort, v.L[0])))
			fr.env[in] = scalar(in.Type(), x.define(st, in.Name(), Apply("str.at", SBV(8), v.L[0], i)))
			return
		}
		at := v.T.Underlying().(*types.Array)
		x.oblige(fr, st, "idx", x.src(fr.fn, in.Pos(), "index"), in.Pos(), BVCmp("bvult", i, BVLit64(at.Len(), 64)))
		out := Value{T: in.Type()}
		for _, l := range v.L {
			out.L = append(out.L, Select(l, i))
		}
		fr.env[in] = x.defineValue(st, in.Name(), out)
	case *ssa.IndexAddr:
		xv := x.val(fr, in.X)
		i := x.idx64(x.val(fr, in.Index))
		switch t := xv.T.Underlying().(type) {
		case *types.Slice:
			x.oblige(fr, st, "idx", x.src(fr.fn, in.Pos(), "index"), in.Pos(), BVCmp("bvult", i, sl(xv).ln))
			st.assume(BVCmp("bvult", i, sl(xv).ln))
			fr.env[in] = Value{T: in.Type(), L: []*Term{nil}, Loc: x.elemLoc(xv, i)}
		case *types.Pointer:
			at := t.Elem().Underlying().(*types.Array)
			x.nilCheck(fr, st, in.X, xv, in.Pos(), "index")
			x.oblige(fr, st, "idx", x.src(fr.fn, in.Pos(), "index"), in.Pos(), BVCmp("bvult", i, BVLit64(at.Len(), 64)))
			st.assume(BVCmp("bvult", i, BVLit64(at.Len(), 64)))
			loc := *x.ptrLoc(xv)
			loc.Idx = append(append([]*Term(nil), loc.Idx...), i)
			loc.T = at.Elem()
			fr.env[in] = Value{T: in.Type(), L: []*Term{nil}, Loc: &loc}
		default:
			unsup("IndexAddr on %s", xv.T)
		}
	case *ssa.Store:
		pv := x.val(fr, in.Addr)
		x.nilCheck(fr, st, in.Addr, pv, in.Pos(), "store")
		v := x.val(fr, in.Val)
		loc := x.ptrLoc(pv)
		x.checkFrame(fr, st, loc, in.Pos())
		x.storeValue(st, loc, v)
	case *ssa.Slice:
		x.sliceOp(fr, st, in)
	case *ssa.MakeSlice:
		ln, cp := x.idx64(x.val(fr, in.Len)), x.idx64(x.val(fr, in.Cap))
		x.oblige(fr, st, "make", x.src(fr.fn, in.Pos(), "make"), in.Pos(),
			And(BVCmp("bvsge", ln, BVLit64(0, 64)), BVCmp("bvsle", ln, cp)))
		st.assume(And(BVCmp("bvsge", ln, BVLit64(0, 64)), BVCmp("bvsle", ln, cp)))
		x.checkAlloc(fr, st, in, ln)
		et := in.Type().Underlying().(*types.Slice).Elem()
		fr.env[in] = x.newSlice(st, in.Type(), et, ln, cp, in.Name())
	case *ssa.MakeMap:
		fr.env[in] = x.makeMap(st, in.Type())
	case *ssa.MakeClosure:
		fn := in.Fn.(*ssa.Function)
		var binds []Value
		for _, b := range in.Bindings {
			binds = append(binds, x.val(fr, b))
		}
		fr.env[in] = Value{T: in.Type(), L: []*Term{x.newRef(st, "closure")}, Fn: &FuncVal{Fn: fn, Binds: binds}}
	case *ssa.MakeChan:
		x.c.note("channel created in %s: channel semantics not modelled", shortFuncName(fr.fn))
		fr.env[in] = Value{T: in.Type(), L: []*Term{x.newRef(st, "chan")}}
	case *ssa.Send:
		// a send is a ghost output event: logged, and checked against the contract's onsend clauses
		v := x.val(fr, in.X)
		tn := typeName(v.T)
		x.c.note("channel send in %s: modelled as a ghost output event (no blocking semantics)", shortFuncName(fr.fn))
		x.logCall(st, "send:"+tn, []Value{v})
		fc := x.contracts[contractKey(x.top)]
		if fc != nil && !st.dry {
			for _, sc := range fc.OnSend {
				if sc.Type == tn || strings.HasSuffix(tn, "."+sc.Type) {
					scope := &specScope{x: x, fr: fr, st: st, old: fr.entry, bound: map[string]Value{"msg": v}}
					g := x.evalSpec(scope, sc.Expr)
					x.oblige(fr, st, "send", sc.Label, in.Pos(), g.L[0])
				}
			}
		}
	case *ssa.Select:
		unsup("select statement in %s", fr.fn.Name())
	case *ssa.Lookup:
		x.lookup(fr, st, in)
	case *ssa.MapUpdate:
		x.mapUpdate(fr, st, x.val(fr, in.Map), x.val(fr, in.Key), x.val(fr, in.Value), in.Pos())
	case *ssa.Range:
		v := x.val(fr, in.X)
		fr.env[in] = Value{T: in.Type(), Tup: []Value{v}}
	case *ssa.Next:
		x.next(fr, st, in)
	case *ssa.SliceToArrayPointer:
		unsup("slice to array pointer conversion")
	case *ssa.MultiConvert:
		unsup("multiconvert")
	default:
		unsup("instruction %T in %s", ins, fr.fn.Name())
	}
}

// storeValue stores v at loc; function values lose their static identity when stored.
func (x *Exec) storeValue(st *State, loc *Loc, v Value) {
	for _, t := range v.L {
		if t == nil {
			unsup("storing an interior pointer into the heap")
		}
		if t.Op == "const" && x.locOf[t.Name] != nil {
			unsup("storing an interior pointer into the heap")
		}
	}
	if v.Fn != nil {
		x.fnCells[locKey(loc)] = v.Fn
	}
	x.store(st, loc, v)
}

func locKey(l *Loc) string {
	s := l.Fam + "@" + l.Ref.String() + fmt.Sprintf("#%d", l.Lo)
	for _, i := range l.Idx {
		s += "[" + i.String() + "]"
	}
	return s
}

func (x *Exec) newSlice(st *State, T types.Type, et types.Type, ln, cp *Term, hint string) Value {
	ref := x.newRef(st, "mk"+hint)
	fam := "arr:" + x.c.elemFamName(et)
	for j, l := range x.c.leaves(et) {
		c := x.comp(st, fam, et, j)
		x.setComp(st, fam, et, j, Store(c, ref, ConstArr(SArr(idxSort, l.S), x.zeroLeaf(l))))
	}
	return Value{T: T, L: []*Term{ref, BVLit64(0, 64), ln, cp}}
}

func (x *Exec) unop(fr *Frame, st *State, in *ssa.UnOp) {
	v := x.val(fr, in.X)
	switch in.Op {
	case token.MUL:
		if g, ok := in.X.(*ssa.Global); ok && x.inInit && g.Name() == "init$guard" {
			fr.env[in] = scalar(in.Type(), False)
			return
		}
		x.nilCheck(fr, st, in.X, v, in.Pos(), "load")
		loc := x.ptrLoc(v)
		r := x.load(st, loc)
		r.T = in.Type()
		if g, ok := in.X.(*ssa.Global); ok {
			if gv, ok := x.globalConst(g); ok {
				gv.T = in.Type()
				fr.env[in] = gv
				return
			}
		}
		r = x.defineValue(st, in.Name(), r)
		x.wellFormed(st, r)
		if g, ok := in.X.(*ssa.Global); ok && g.Pkg != nil && g.Pkg.Pkg.Path() == "crypto/rand" && g.Name() == "Reader" {
			// library assumption: the standard library initialises crypto/rand.Reader to the operating
			// system's generator before any user code runs, and nothing in gossamer assigns it
			st.assume(Not(Eq(r.L[0], IntLit(0))))
			x.c.note("assumed: crypto/rand.Reader is non-nil (initialised by the standard library, never reassigned)")
		}
		if fn, ok := x.fnCells[locKey(loc)]; ok {
			r.Fn = fn
		}
		fr.env[in] = r
	case token.SUB:
		if isFloat(v.T) {
			fr.env[in] = x.freshValue(st, "fneg", in.Type())
			return
		}
		fr.env[in] = scalar(in.Type(), x.define(st, in.Name(), &Term{Op: "bvneg", Args: []*Term{v.L[0]}, S: v.L[0].S}))
	case token.NOT:
		fr.env[in] = scalar(in.Type(), Not(v.L[0]))
	case token.XOR:
		fr.env[in] = scalar(in.Type(), x.define(st, in.Name(), &Term{Op: "bvnot", Args: []*Term{v.L[0]}, S: v.L[0].S}))
	case token.ARROW:
		x.c.note("channel receive in %s: result unconstrained", shortFuncName(fr.fn))
		if in.CommaOk {
			et := in.Type().(*types.Tuple)
			fr.env[in] = Value{T: in.Type(), Tup: []Value{x.freshValue(st, "recv", et.At(0).Type()), x.freshValue(st, "recvok", et.At(1).Type())}}
		} else {
			fr.env[in] = x.freshValue(st, "recv", in.Type())
		}
	default:
		unsup("unary op %s", in.Op)
	}
}

func (x *Exec) binop(fr *Frame, st *State, op token.Token, a, b Value, T types.Type, pos token.Pos) Value {
	switch {
	case isInteger(a.T) && (isInteger(b.T) || op == token.SHL || op == token.SHR):
		return x.intBinop(fr, st, op, a, b, T, pos)
	case isFloat(a.T) && len(a.L) == 1 && len(b.L) == 1 && a.L[0].S == b.L[0].S:
		// floating point: every operation is an uninterpreted function of its operands (a sound abstraction of
		// the IEEE operation: same operands, same result); values are never computed
		x.c.note("floating point operations are uninterpreted functions of their operands (values not modelled)")
		w := a.L[0].S
		var name string
		switch op {
		case token.ADD:
			name = "fp.add"
		case token.SUB:
			name = "fp.sub"
		case token.MUL:
			name = "fp.mul"
		case token.QUO:
			name = "fp.div"
		case token.LSS:
			name = "fp.lt"
		case token.LEQ:
			name = "fp.le"
		case token.GTR:
			x.c.declFun("fp.lt", []Sort{w, w}, SBool)
			return scalar(T, Apply("fp.lt", SBool, b.L[0], a.L[0]))
		case token.GEQ:
			x.c.declFun("fp.le", []Sort{w, w}, SBool)
			return scalar(T, Apply("fp.le", SBool, b.L[0], a.L[0]))
		case token.EQL:
			name = "fp.eq"
		case token.NEQ:
			x.c.declFun("fp.eq", []Sort{w, w}, SBool)
			return scalar(T, Not(Apply("fp.eq", SBool, a.L[0], b.L[0])))
		}
		if name == "" {
			return x.freshValue(st, "fp", T)
		}
		if name == "fp.lt" || name == "fp.le" || name == "fp.eq" {
			x.c.declFun(name, []Sort{w, w}, SBool)
			return scalar(T, Apply(name, SBool, a.L[0], b.L[0]))
		}
		x.c.declFun(name, []Sort{w, w}, w)
		return scalar(T, x.define(st, "fp", Apply(name, w, a.L[0], b.L[0])))
	case isFloat(a.T):
		x.c.note("floating point arithmetic in %s: results unconstrained", shortFuncName(fr.fn))
		return x.freshValue(st, "fp", T)
	case isString(a.T):
		switch op {
		case token.ADD:
			x.needStrAxioms()
			return scalar(T, Apply("str.cat", SStr, a.L[0], b.L[0]))
		case token.EQL:
			return scalar(T, Eq(a.L[0], b.L[0]))
		case token.NEQ:
			return scalar(T, Not(Eq(a.L[0], b.L[0])))
		case token.LSS:
			return scalar(T, Apply("str.lt", SBool, a.L[0], b.L[0]))
		case token.GTR:
			return scalar(T, Apply("str.lt", SBool, b.L[0], a.L[0]))
		case token.LEQ:
			return scalar(T, Not(Apply("str.lt", SBool, b.L[0], a.L[0])))
		case token.GEQ:
			return scalar(T, Not(Apply("str.lt", SBool, a.L[0], b.L[0])))
		}
	case isBool(a.T):
		switch op {
		case token.EQL:
			return scalar(T, Eq(a.L[0], b.L[0]))
		case token.NEQ:
			return scalar(T, Not(Eq(a.L[0], b.L[0])))
		case token.AND, token.LAND:
			return scalar(T, And(a.L[0], b.L[0]))
		case token.OR, token.LOR:
			return scalar(T, Or(a.L[0], b.L[0]))
		}
	}
	if op == token.EQL || op == token.NEQ {
		var eq *Term
		_, ai := a.T.Underlying().(*types.Interface)
		_, bi := b.T.Underlying().(*types.Interface)
		switch {
		case ai && bi:
			// nil interface <=> tag == 0
			if isNilConst(b) {
				eq = Eq(a.L[0], IntLit(0))
			} else if isNilConst(a) {
				eq = Eq(b.L[0], IntLit(0))
			} else {
				eq = x.ifaceEq(a, b)
			}
		case isSliceT(a.T):
			// only comparison with nil is legal
			if isNilConst(b) {
				eq = Eq(a.L[0], IntLit(0))
			} else {
				eq = Eq(b.L[0], IntLit(0))
			}
		default:
			if (a.Loc != nil && a.L[0] == nil) || (b.Loc != nil && b.L[0] == nil) {
				unsup("comparison of interior pointers")
			}
			eq = x.valuesEqual(a, b)
		}
		if op == token.NEQ {
			eq = Not(eq)
		}
		return scalar(T, eq)
	}
	unsup("binary op %s on %s", op, a.T)
	return Value{}
}

// ifaceEq: interface values are equal when their dynamic types agree and their payloads agree; values
// of zero-size types (struct{}) have no payload to compare.
func (x *Exec) ifaceEq(a, b Value) *Term {
	var zs []*Term
	for id := 1; id < len(x.c.tagTypes); id++ {
		T := x.c.tagTypes[id]
		if T == errPseudoType {
			continue
		}
		if func() (z bool) {
			defer func() {
				if recover() != nil {
					z = false
				}
			}()
			return len(x.c.leaves(T)) == 0
		}() {
			zs = append(zs, Eq(a.L[0], IntLit(int64(id))))
		}
	}
	return And(Eq(a.L[0], b.L[0]), Or(append([]*Term{Eq(a.L[1], b.L[1])}, zs...)...))
}

func isSliceT(T types.Type) bool { _, ok := T.Underlying().(*types.Slice); return ok }

func isNilConst(v Value) bool {
	for _, t := range v.L {
		if t == nil || !t.IsLit || t.Val.Sign() != 0 {
			return false
		}
	}
	return len(v.L) > 0
}

func (x *Exec) intBinop(fr *Frame, st *State, op token.Token, a, b Value, T types.Type, pos token.Pos) Value {
	s := isSigned(a.T)
	l, r := a.L[0], b.L[0]
	w := l.S.W
	cmp := func(sop, uop string) Value {
		if s {
			return scalar(T, BVCmp(sop, l, r))
		}
		return scalar(T, BVCmp(uop, l, r))
	}
	switch op {
	case token.ADD:
		x.ovfCheck(fr, st, "add", a, b, pos)
		return scalar(T, BVBin("bvadd", l, r))
	case token.SUB:
		x.ovfCheck(fr, st, "sub", a, b, pos)
		return scalar(T, BVBin("bvsub", l, r))
	case token.MUL:
		x.ovfCheck(fr, st, "mul", a, b, pos)
		return scalar(T, BVBin("bvmul", l, r))
	case token.QUO, token.REM:
		x.oblige(fr, st, "div", x.src(fr.fn, pos, "div"), pos, Not(Eq(r, BVLit64(0, w))))
		st.assume(Not(Eq(r, BVLit64(0, w))))
		o := map[bool]map[token.Token]string{true: {token.QUO: "bvsdiv", token.REM: "bvsrem"}, false: {token.QUO: "bvudiv", token.REM: "bvurem"}}[s][op]
		return scalar(T, BVBin(o, l, r))
	case token.AND:
		return scalar(T, BVBin("bvand", l, r))
	case token.OR:
		return scalar(T, BVBin("bvor", l, r))
	case token.XOR:
		return scalar(T, BVBin("bvxor", l, r))
	case token.AND_NOT:
		return scalar(T, BVBin("bvand", l, &Term{Op: "bvnot", Args: []*Term{r}, S: r.S}))
	case token.SHL, token.SHR:
		// shift count: unsigned or signed(non-negative, else panic)
		cnt := r
		if isSigned(b.T) {
			x.oblige(fr, st, "shift", x.src(fr.fn, pos, "shift"), pos, BVCmp("bvsge", r, BVLit64(0, r.S.W)))
			st.assume(BVCmp("bvsge", r, BVLit64(0, r.S.W)))
		}
		var big *Term = False
		if cnt.S.W > w {
			big = BVCmp("bvuge", cnt, BVLit64(int64(w), cnt.S.W))
			cnt = Extract(w-1, 0, cnt)
		} else if cnt.S.W < w {
			cnt = ZeroExt(cnt, w)
		}
		var res *Term
		switch {
		case op == token.SHL:
			res = Ite(big, BVLit64(0, w), BVBin("bvshl", l, cnt))
		case s:
			res = Ite(big, BVBin("bvashr", l, BVLit64(int64(w-1), w)), BVBin("bvashr", l, cnt))
		default:
			res = Ite(big, BVLit64(0, w), BVBin("bvlshr", l, cnt))
		}
		return scalar(T, res)
	case token.EQL:
		return scalar(T, Eq(l, r))
	case token.NEQ:
		return scalar(T, Not(Eq(l, r)))
	case token.LSS:
		return cmp("bvslt", "bvult")
	case token.LEQ:
		return cmp("bvsle", "bvule")
	case token.GTR:
		return cmp("bvsgt", "bvugt")
	case token.GEQ:
		return cmp("bvsge", "bvuge")
	}
	unsup("int binop %s", op)
	return Value{}
}

// ovfCheck emits an overflow obligation when the contract of the enclosing function asks for it.
func (x *Exec) ovfCheck(fr *Frame, st *State, kind string, a, b Value, pos token.Pos) {
	fc := fr.fc
	if fc == nil {
		fc = x.contracts[contractKey(fr.fn)]
	}
	if fc == nil || !fc.CheckOverflow {
		return
	}
	l, r := a.L[0], b.L[0]
	w := l.S.W
	s := isSigned(a.T)
	var ok *Term
	ext := func(t *Term) *Term {
		if s {
			return SignExt(t, w+1)
		}
		return ZeroExt(t, w+1)
	}
	switch kind {
	case "add", "sub":
		var wide *Term
		if kind == "add" {
			wide = BVBin("bvadd", ext(l), ext(r))
		} else {
			wide = BVBin("bvsub", ext(l), ext(r))
		}
		var narrow *Term
		if kind == "add" {
			narrow = BVBin("bvadd", l, r)
		} else {
			narrow = BVBin("bvsub", l, r)
		}
		ok = Eq(wide, ext(narrow))
	case "mul":
		e2 := func(t *Term) *Term {
			if s {
				return SignExt(t, 2*w)
			}
			return ZeroExt(t, 2*w)
		}
		ok = Eq(BVBin("bvmul", e2(l), e2(r)), e2(BVBin("bvmul", l, r)))
	}
	label := x.src(fr.fn, pos, kind)
	for _, wr := range fc.Wraps {
		if strings.Contains(label, wr) {
			return
		}
	}
	x.oblige(fr, st, "ovf", label, pos, ok)
}

func (x *Exec) convert(fr *Frame, st *State, v Value, T types.Type, pos token.Pos) Value {
	switch {
	case isInteger(v.T) && isInteger(T):
		t := v.L[0]
		tb := T.Underlying().(*types.Basic)
		w, _, _ := basicWidth(tb)
		var r *Term
		switch {
		case w == t.S.W:
			r = t
		case w < t.S.W:
			r = Extract(w-1, 0, t)
			x.convCheck(fr, st, v, T, pos)
		case isSigned(v.T):
			r = SignExt(t, w)
		default:
			r = ZeroExt(t, w)
		}
		return scalar(T, r)
	case isInteger(v.T) && isFloat(T) && len(v.L) == 1:
		// integer -> float: an uninterpreted function of the (sign- or zero-extended) integer
		if b, ok := T.Underlying().(*types.Basic); ok && b.Kind() == types.Float64 {
			t := v.L[0]
			name := "fp.of_u64"
			if isSigned(v.T) {
				name = "fp.of_i64"
				if t.S.W < 64 {
					t = SignExt(t, 64)
				}
			} else if t.S.W < 64 {
				t = ZeroExt(t, 64)
			}
			x.c.declFun(name, []Sort{SBV(64)}, SBV(64))
			x.c.note("floating point operations are uninterpreted functions of their operands (values not modelled)")
			return scalar(T, x.define(st, "fconv", Apply(name, SBV(64), t)))
		}
		return x.freshValue(st, "fconv", T)
	case isInteger(v.T) && isFloat(T), isFloat(v.T) && isInteger(T), isFloat(v.T) && isFloat(T):
		x.c.note("floating point conversion in %s: result unconstrained", shortFuncName(fr.fn))
		return x.freshValue(st, "fconv", T)
	case isString(T) && isSliceT(v.T):
		// string(bytes)
		x.needStrAxioms()
		p := sl(v)
		arr := Select(x.comp(st, "arr:uint8", types.Typ[types.Uint8], 0), p.base)
		s := x.define(st, "str", Apply("str.of", SStr, arr, p.off, p.ln))
		return scalar(T, s)
	case isSliceT(T) && isString(v.T):
		// []byte(string)
		et := T.Underlying().(*types.Slice).Elem()
		if b, ok := et.Underlying().(*types.Basic); !ok || b.Kind() != types.Uint8 {
			unsup("conversion string -> %s", T)
		}
		ln := Apply("str.len", idxSort, v.L[0])
		out := x.newSlice(st, T, et, ln, ln, "bytesOfStr")
		arr := x.c.Fresh("strbytes", SArr(idxSort, SBV(8)))
		i := Var("i!q", idxSort)
		st.assume(Quant("forall", []*Term{i}, Implies(BVCmp("bvult", i, ln), Eq(Select(arr, i), Apply("str.at", SBV(8), v.L[0], i))), Select(arr, i)))
		c := x.comp(st, "arr:uint8", types.Typ[types.Uint8], 0)
		x.setComp(st, "arr:uint8", types.Typ[types.Uint8], 0, Store(c, out.L[0], arr))
		// round trip: string([]byte(s)) == s (strings have no extensionality axiom of their own)
		st.assume(Eq(Apply("str.of", SStr, arr, BVLit64(0, 64), ln), v.L[0]))
		return out
	case isString(T) && isInteger(v.T):
		return x.freshValue(st, "runestr", T)
	case isString(T) && isString(v.T):
		v.T = T
		return v
	}
	if _, ok := T.Underlying().(*types.Pointer); ok {
		if b, ok := v.T.Underlying().(*types.Basic); ok && b.Kind() == types.UnsafePointer {
			unsup("unsafe.Pointer conversion")
		}
	}
	if b, ok := T.Underlying().(*types.Basic); ok && b.Kind() == types.UnsafePointer {
		unsup("unsafe.Pointer conversion")
	}
	unsup("convert %s -> %s", v.T, T)
	return Value{}
}

// convCheck: narrowing conversions generate a range obligation only if the contract asks (CheckConv).
func (x *Exec) convCheck(fr *Frame, st *State, v Value, T types.Type, pos token.Pos) {
	fc := fr.fc
	if fc == nil {
		fc = x.contracts[contractKey(fr.fn)]
	}
	if fc == nil || !fc.CheckConv {
		return
	}
	t := v.L[0]
	w, _, _ := basicWidth(T.Underlying().(*types.Basic))
	var ok *Term
	if isSigned(v.T) {
		ok = Eq(SignExt(Extract(w-1, 0, t), t.S.W), t)
		if !isSigned(T) {
			ok = Eq(ZeroExt(Extract(w-1, 0, t), t.S.W), t)
		}
	} else {
		ok = Eq(ZeroExt(Extract(w-1, 0, t), t.S.W), t)
	}
	x.oblige(fr, st, "conv", x.src(fr.fn, pos, "conv"), pos, ok)
}

func (x *Exec) needStrAxioms() {
	if x.c.strAx {
		return
	}
	x.c.strAx = true
	a := Var("a!q", SArr(idxSort, SBV(8)))
	o, n, i := Var("o!q", idxSort), Var("n!q", idxSort), Var("i!q", idxSort)
	so := Apply("str.of", SStr, a, o, n)
	x.c.axioms = append(x.c.axioms,
		Quant("forall", []*Term{a, o, n}, Eq(Apply("str.len", idxSort, so), n), so),
		Quant("forall", []*Term{a, o, n, i}, Implies(BVCmp("bvult", i, n), Eq(Apply("str.at", SBV(8), so, i), Select(a, BVBin("bvadd", o, i)))), Apply("str.at", SBV(8), so, i)),
	)
	s, t := Var("s!q", SStr), Var("t!q", SStr)
	cat := Apply("str.cat", SStr, s, t)
	x.c.axioms = append(x.c.axioms,
		Quant("forall", []*Term{s, t}, Eq(Apply("str.len", idxSort, cat), BVBin("bvadd", Apply("str.len", idxSort, s), Apply("str.len", idxSort, t))), cat))
}

func (x *Exec) makeInterface(st *State, v Value, T types.Type) Value {
	tag := IntLit(int64(x.c.typeTag(v.T)))
	ls := x.c.leaves(v.T)
	if len(ls) == 1 && ls[0].Kind == 'r' {
		if v.L[0] == nil {
			v = x.reifyPtr(st, v)
		}
		out := Value{T: T, L: []*Term{tag, v.L[0]}, Fn: v.Fn}
		if _, isPtr := v.T.Underlying().(*types.Pointer); isPtr {
			// nil pointer in interface is a non-nil interface: tag stays
		}
		return out
	}
	// box the value
	fam, root, _ := x.c.famOf(v.T)
	if len(ls) == 0 {
		return Value{T: T, L: []*Term{tag, IntLit(0)}}
	}
	ref := x.newRef(st, "box")
	loc := &Loc{Fam: fam, RootT: root, Ref: ref, Lo: 0, Hi: len(x.c.leaves(root)), T: v.T}
	x.storeValue(st, loc, v)
	return Value{T: T, L: []*Term{tag, ref}}
}

func (x *Exec) unbox(st *State, iv Value, T types.Type) Value {
	ls := x.c.leaves(T)
	if len(ls) == 1 && ls[0].Kind == 'r' {
		return Value{T: T, L: []*Term{iv.L[1]}, Fn: iv.Fn}
	}
	if len(ls) == 0 {
		return Value{T: T}
	}
	fam, root, _ := x.c.famOf(T)
	loc := &Loc{Fam: fam, RootT: root, Ref: iv.L[1], Lo: 0, Hi: len(x.c.leaves(root)), T: T}
	r := x.load(st, loc)
	return r
}

func (x *Exec) typeAssert(fr *Frame, st *State, in *ssa.TypeAssert) {
	iv := x.val(fr, in.X)
	T := in.AssertedType
	var ok *Term
	var val Value
	if _, isIface := T.Underlying().(*types.Interface); isIface {
		b := x.c.Fresh("implements", SBool)
		st.assume(Implies(b, Not(Eq(iv.L[0], IntLit(0)))))
		it := T.Underlying().(*types.Interface)
		for id := 1; id < len(x.c.tagTypes); id++ {
			impl := types.Implements(x.c.tagTypes[id], it)
			st.assume(Implies(Eq(iv.L[0], IntLit(int64(id))), Eq(b, BoolLit(impl))))
		}
		if it.NumMethods() == 0 {
			st.assume(Eq(b, Not(Eq(iv.L[0], IntLit(0)))))
		}
		ok = b
		val = Value{T: T, L: iv.L, Fn: iv.Fn}
	} else {
		ok = Eq(iv.L[0], IntLit(int64(x.c.typeTag(T))))
		val = x.unbox(st, iv, T)
		if ls := x.c.leaves(T); !(len(ls) == 1 && ls[0].Kind == 'r') && len(ls) > 0 {
			// a non-pointer value inside an interface lives in a box that exists and is well formed
			st.assume(Implies(ok, IntCmp(">", iv.L[1], IntLit(0))))
			x.wellFormed(st, val)
		}
	}
	if in.CommaOk {
		z := x.zero(T)
		out := Value{T: T, Fn: val.Fn}
		for i := range val.L {
			out.L = append(out.L, Ite(ok, val.L[i], z.L[i]))
		}
		fr.env[in] = Value{T: in.Type(), Tup: []Value{x.defineValue(st, in.Name(), out), scalar(types.Typ[types.Bool], ok)}}
		return
	}
	x.oblige(fr, st, "assert", x.src(fr.fn, in.Pos(), "typeassert"), in.Pos(), ok)
	st.assume(ok)
	fr.env[in] = x.defineValue(st, in.Name(), val)
}

func (x *Exec) sliceOp(fr *Frame, st *State, in *ssa.Slice) {
	xv := x.val(fr, in.X)
	get := func(v ssa.Value) *Term {
		if v == nil {
			return nil
		}
		return x.idx64(x.val(fr, v))
	}
	lo, hi, max := get(in.Low), get(in.High), get(in.Max)
	if lo == nil {
		lo = BVLit64(0, 64)
	}
	label := x.src(fr.fn, in.Pos(), "slice")
	switch t := xv.T.Underlying().(type) {
	case *types.Slice:
		p := sl(xv)
		if hi == nil {
			hi = p.ln
		}
		capB := p.cp
		if max != nil {
			capB = max
		}
		goal := And(BVCmp("bvule", lo, hi), BVCmp("bvule", hi, capB))
		if max != nil {
			goal = And(goal, BVCmp("bvule", max, p.cp))
		}
		x.oblige(fr, st, "slice", label, in.Pos(), goal)
		st.assume(goal)
		out := Value{T: in.Type(), L: []*Term{p.base, BVBin("bvadd", p.off, lo), BVBin("bvsub", hi, lo), BVBin("bvsub", capB, lo)}}
		fr.env[in] = x.defineValue(st, in.Name(), out)
	case *types.Basic: // string
		ln := Apply("str.len", idxSort, xv.L[0])
		if hi == nil {
			hi = ln
		}
		goal := And(BVCmp("bvule", lo, hi), BVCmp("bvule", hi, ln))
		x.oblige(fr, st, "slice", label, in.Pos(), goal)
		st.assume(goal)
		x.c.declFun("str.sub", []Sort{SStr, idxSort, idxSort}, SStr)
		sub := x.define(st, "substr", Apply("str.sub", SStr, xv.L[0], lo, hi))
		st.assume(Eq(Apply("str.len", idxSort, sub), BVBin("bvsub", hi, lo)))
		i := Var("i!q", idxSort)
		st.assume(Quant("forall", []*Term{i}, Implies(BVCmp("bvult", i, BVBin("bvsub", hi, lo)),
			Eq(Apply("str.at", SBV(8), sub, i), Apply("str.at", SBV(8), xv.L[0], BVBin("bvadd", lo, i)))), Apply("str.at", SBV(8), sub, i)))
		fr.env[in] = scalar(in.Type(), sub)
	case *types.Pointer:
		at := t.Elem().Underlying().(*types.Array)
		x.nilCheck(fr, st, in.X, xv, in.Pos(), "slice")
		loc := x.ptrLoc(xv)
		if !strings.HasPrefix(loc.Fam, "arr:") || len(loc.Idx) != 0 {
			// an array nested in another object (struct field, array element): the slice is modelled as a
			// read-only snapshot of the array's current content in a fresh backing array; a write through
			// the snapshot, or a write to any backing array while the original could be expected to change
			// with it, is rejected by an obligation at every array write (snapshot:<...>)
			et := at.Elem()
			cur := x.load(st, loc)
			ref := x.newRef(st, "arrsnap")
			fam := "arr:" + x.c.elemFamName(et)
			if len(cur.L) != len(x.c.leaves(et)) {
				unsup("slicing an array nested in another object (%s)", loc.Fam)
			}
			x.snapRefs = append(x.snapRefs, ref)
			if x.snapFams == nil {
				x.snapFams = map[string]bool{}
			}
			x.snapFams[fam] = true // (references are per family: only writes to the same family can hit a snapshot)
			x.snapInit = true
			for j := range x.c.leaves(et) {
				c := x.comp(st, fam, et, j)
				x.setComp(st, fam, et, j, Store(c, ref, cur.L[j]))
			}
			x.snapInit = false
			x.c.note("slices of arrays nested in structs are modelled as read-only snapshots (writes through them are rejected)")
			loc = &Loc{Fam: fam, RootT: et, Ref: ref, Lo: 0, Hi: len(x.c.leaves(et)), T: et}
		}
		n := BVLit64(at.Len(), 64)
		if hi == nil {
			hi = n
		}
		capB := n
		if max != nil {
			capB = max
		}
		goal := And(BVCmp("bvule", lo, hi), BVCmp("bvule", hi, capB), BVCmp("bvule", capB, n))
		x.oblige(fr, st, "slice", label, in.Pos(), goal)
		st.assume(goal)
		out := Value{T: in.Type(), L: []*Term{loc.Ref, lo, BVBin("bvsub", hi, lo), BVBin("bvsub", capB, lo)}}
		fr.env[in] = x.defineValue(st, in.Name(), out)
	default:
		unsup("slice of %s", xv.T)
	}
}

// ---------- maps ----------

type mapFam struct {
	name string
	K, V types.Type
	ks   Sort
}

func (x *Exec) mapFam(T types.Type) mapFam {
	mt := T.Underlying().(*types.Map)
	kl := x.c.leaves(mt.Key())
	if len(kl) != 1 {
		unsup("map key type %s with %d leaves", mt.Key(), len(kl))
	}
	return mapFam{name: "map:" + sanitize(typeName(mt.Key())) + "=>" + sanitize(typeName(mt.Elem())), K: mt.Key(), V: mt.Elem(), ks: kl[0].S}
}

func (x *Exec) mapComp(st *State, mf mapFam, which string, j int) (*Term, string) {
	var s Sort
	var key string
	switch which {
	case "dom":
		s, key = SArr(SInt, SArr(mf.ks, SBool)), mf.name+"#dom"
	case "len":
		s, key = SArr(SInt, idxSort), mf.name+"#len"
	default:
		l := x.c.leaves(mf.V)[j]
		s, key = SArr(SInt, SArr(mf.ks, l.S)), fmt.Sprintf("%s#val%d", mf.name, j)
	}
	if t, ok := st.heap[key]; ok {
		return t, key
	}
	pref := "H0_"
	if x.heapPrefix != "" {
		pref = x.heapPrefix
	}
	t := x.c.Named(pref+key, s)
	st.heap[key] = t
	x.rawSorts[key] = s
	if which == "val" && !x.inInit && x.heapPrefix == "" {
		// heap well-formedness for references stored in maps (as heapWF for object fields): a reference held
		// by a map that exists at entry denotes an object that exists at entry
		if l := x.c.leaves(mf.V)[j]; (l.Kind == 'r' || l.Kind == 'p') && l.Dims == 0 && !x.axiomSeen["wf:"+t.Name] {
			x.axiomSeen["wf:"+t.Name] = true
			x.qcount++
			m := Var("m!wf"+itoa(x.qcount), SInt)
			k := Var("k!wf"+itoa(x.qcount), mf.ks)
			e := Select(Select(t, m), k)
			a0 := x.c.Named("alloc0", SInt)
			x.extraAxioms = append(x.extraAxioms, Quant("forall", []*Term{m, k}, Implies(IntCmp("<=", m, a0), IntCmp("<=", e, a0)), e))
		}
	}
	return t, key
}

func (x *Exec) setRaw(st *State, key string, t *Term) {
	v := x.c.Fresh("H_"+key, t.S)
	v.Def = t
	st.assume(Eq(v, t))
	x.defs[v.Name] = t
	st.heap[key] = v
	x.recordWrite(st, key, t)
	x.frameWrite(st, key, t)
	if t.Op == "store" {
		x.guardAccessK(st, t.Args[1], true, true)
	}
}

func (x *Exec) makeMap(st *State, T types.Type) Value {
	mf := x.mapFam(T)
	ref := x.newRef(st, "map")
	dom, dk := x.mapComp(st, mf, "dom", 0)
	x.setRaw(st, dk, Store(dom, ref, ConstArr(SArr(mf.ks, SBool), False)))
	ln, lk := x.mapComp(st, mf, "len", 0)
	x.setRaw(st, lk, Store(ln, ref, BVLit64(0, 64)))
	return Value{T: T, L: []*Term{ref}}
}

func (x *Exec) lookup(fr *Frame, st *State, in *ssa.Lookup) {
	xv := x.val(fr, in.X)
	if isString(xv.T) {
		i := x.idx64(x.val(fr, in.Index))
		x.oblige(fr, st, "idx", x.src(fr.fn, in.Pos(), "index"), in.Pos(), BVCmp("bvult", i, Apply("str.len", idxSort, xv.L[0])))
		fr.env[in] = scalar(in.Type(), x.define(st, in.Name(), Apply("str.at", SBV(8), xv.L[0], i)))
		return
	}
	if mt, isMap := xv.T.Underlying().(*types.Map); isMap && len(x.c.leaves(mt.Key())) != 1 {
		// a read of a map whose key type has several scalar components (a struct key): the maps of the
		// memory model are keyed by one scalar, so the value read is left unconstrained (sound for reads;
		// writes to such maps stay outside the subset)
		x.c.note("reads of maps with composite keys (%s) return unconstrained values", typeName(mt.Key()))
		val := x.freshValue(st, "compkey_"+in.Name(), mt.Elem())
		if in.CommaOk {
			fr.env[in] = Value{T: in.Type(), Tup: []Value{val, scalar(types.Typ[types.Bool], x.c.Fresh("compkey_ok", SBool))}}
		} else {
			fr.env[in] = val
		}
		return
	}
	mf := x.mapFam(xv.T)
	k := x.val(fr, in.Index).L[0]
	m := xv.L[0]
	x.guardAccessK(st, m, false, true)
	dom, _ := x.mapComp(st, mf, "dom", 0)
	ok := And(Not(Eq(m, IntLit(0))), Select(Select(dom, m), k))
	ok = x.define(st, in.Name()+"_ok", ok)
	vt := mf.V
	val := Value{T: vt}
	z := x.zero(vt)
	for j := range x.c.leaves(vt) {
		vc, _ := x.mapComp(st, mf, "val", j)
		val.L = append(val.L, Ite(ok, Select(Select(vc, m), k), z.L[j]))
	}
	val = x.defineValue(st, in.Name(), val)
	x.wellFormed(st, val)
	if fn, okf := x.fnCells[mf.name+"@"+m.String()+"["+k.String()+"]"]; okf {
		val.Fn = fn
	}
	if in.CommaOk {
		fr.env[in] = Value{T: in.Type(), Tup: []Value{val, scalar(types.Typ[types.Bool], ok)}}
	} else {
		fr.env[in] = val
	}
}

func (x *Exec) mapUpdate(fr *Frame, st *State, mv, kv, vv Value, pos token.Pos) {
	mf := x.mapFam(mv.T)
	m, k := mv.L[0], kv.L[0]
	x.oblige(fr, st, "nilmap", x.src(fr.fn, pos, "mapupdate"), pos, Not(Eq(m, IntLit(0))))
	st.assume(Not(Eq(m, IntLit(0))))
	dom, dk := x.mapComp(st, mf, "dom", 0)
	ln, lk := x.mapComp(st, mf, "len", 0)
	had := Select(Select(dom, m), k)
	x.setRaw(st, lk, Store(ln, m, Ite(had, Select(ln, m), BVBin("bvadd", Select(ln, m), BVLit64(1, 64)))))
	x.setRaw(st, dk, Store(dom, m, Store(Select(dom, m), k, True)))
	for j := range x.c.leaves(mf.V) {
		if vv.L[j] == nil {
			unsup("storing interior pointer in map")
		}
		vc, vk := x.mapComp(st, mf, "val", j)
		x.setRaw(st, vk, Store(vc, m, Store(Select(vc, m), k, vv.L[j])))
	}
	if vv.Fn != nil {
		x.fnCells[mf.name+"@"+m.String()+"["+k.String()+"]"] = vv.Fn
	}
}

func (x *Exec) mapDelete(fr *Frame, st *State, mv, kv Value) {
	mf := x.mapFam(mv.T)
	m, k := mv.L[0], kv.L[0]
	dom, dk := x.mapComp(st, mf, "dom", 0)
	ln, lk := x.mapComp(st, mf, "len", 0)
	had := And(Not(Eq(m, IntLit(0))), Select(Select(dom, m), k))
	x.setRaw(st, lk, Store(ln, m, Ite(had, BVBin("bvsub", Select(ln, m), BVLit64(1, 64)), Select(ln, m))))
	x.setRaw(st, dk, Store(dom, m, Store(Select(dom, m), k, False)))
}

func (x *Exec) mapLen(st *State, mv Value) *Term {
	mf := x.mapFam(mv.T)
	x.guardAccessK(st, mv.L[0], false, true)
	ln, _ := x.mapComp(st, mf, "len", 0)
	return Ite(Eq(mv.L[0], IntLit(0)), BVLit64(0, 64), Select(ln, mv.L[0]))
}

func (x *Exec) next(fr *Frame, st *State, in *ssa.Next) {
	it := x.val(fr, in.Iter)
	src := it.Tup[0]
	tt := in.Type().(*types.Tuple)
	ok := x.c.Fresh("next_ok", SBool)
	if in.IsString {
		x.c.note("range over string in %s: index/rune unconstrained", shortFuncName(fr.fn))
		fr.env[in] = Value{T: in.Type(), Tup: []Value{scalar(tt.At(0).Type(), ok), x.freshValue(st, "ri", tt.At(1).Type()), x.freshValue(st, "rr", tt.At(2).Type())}}
		return
	}
	mf := x.mapFam(src.T)
	m := src.L[0]
	k := x.freshValue(st, "rk", mf.K)
	dom, _ := x.mapComp(st, mf, "dom", 0)
	st.assume(Implies(ok, And(Not(Eq(m, IntLit(0))), Select(Select(dom, m), k.L[0]))))
	val := Value{T: mf.V}
	for j := range x.c.leaves(mf.V) {
		vc, _ := x.mapComp(st, mf, "val", j)
		val.L = append(val.L, Select(Select(vc, m), k.L[0]))
	}
	val = x.defineValue(st, "rv", val)
	x.wellFormed(st, val)
	kk, vvv := k, val
	if tt.At(1).Type() != nil {
		kk.T = tt.At(1).Type()
	}
	if tt.At(2).Type() != nil {
		vvv.T = tt.At(2).Type()
	}
	fr.env[in] = Value{T: in.Type(), Tup: []Value{scalar(tt.At(0).Type(), ok), kk, vvv}}
}

// checkFrame / checkAlloc are hooks refined in contract-driven modes.
func (x *Exec) checkFrame(fr *Frame, st *State, loc *Loc, pos token.Pos) {}

// frameWrite is called for every heap write (term t = (store comp ref …)) while the body of a function
// under contract is executed: the written object must be new (allocated during this call) or named in
// the contract's modifies clause. This is what makes call-site reasoning by contract sound.
func (x *Exec) frameWrite(st *State, k string, t *Term) {
	if len(x.snapRefs) > 0 && !st.dry && !x.inInit && t != nil && t.Op == "store" && x.snapFams[famOfKey(k)] && x.curFr != nil {
		ref := t.Args[1]
		fresh := ref.Op == "const" && strings.HasPrefix(ref.Name, "ref_") && !strings.HasPrefix(ref.Name, "ref_arrsnap")
		isSnapInit := false
		for _, sr := range x.snapRefs {
			if sr == ref {
				isSnapInit = x.snapInit
			}
		}
		if !fresh && !isSnapInit {
			var cs []*Term
			for _, sr := range x.snapRefs {
				cs = append(cs, Not(Eq(ref, sr)))
			}
			pos := token.NoPos
			label := "write"
			if x.curIns != nil {
				pos = x.curIns.Pos()
				label = x.src(x.curFr.fn, pos, "write")
			}
			x.oblige(x.curFr, st, "snapshot", label+"@"+famOfKey(k), pos, And(cs...))
		}
	}
	x.checkWriteRules(st, k, t)
	if !x.frameOn || st.dry || x.inInit || x.frameOff > 0 {
		return
	}
	label := "write"
	pos := token.NoPos
	if x.curIns != nil && x.curFr != nil {
		pos = x.curIns.Pos()
		label = x.src(x.curFr.fn, pos, "write")
	}
	if t == nil || t.Op != "store" {
		x.oblige(x.curFr, st, "frame", label+"@"+famOfKey(k)+"(whole component)", pos, False)
		return
	}
	ref := t.Args[1]
	if ref.Op == "const" && strings.HasPrefix(ref.Name, "ref_") {
		return // allocated during this call
	}
	cs := []*Term{IntCmp(">", ref, x.alloc0)}
	for _, m := range x.modRefs {
		cs = append(cs, Eq(ref, m))
	}
	x.oblige(x.curFr, st, "frame", label+"@"+famOfKey(k), pos, Or(cs...))
}

func famOfKey(k string) string {
	if i := strings.LastIndex(k, "#"); i > 0 {
		return k[:i]
	}
	return k
}

// refsOf returns the references of the objects directly denoted by v (for modifies clauses).
func (x *Exec) refsOf(v Value) []*Term {
	switch v.T.Underlying().(type) {
	case *types.Slice, *types.Map, *types.Chan:
		return []*Term{v.L[0]}
	case *types.Pointer:
		if v.L[0] == nil {
			return []*Term{x.ptrLoc(v).Ref}
		}
		if l := x.locOf[v.L[0].String()]; l != nil {
			return []*Term{l.Ref}
		}
		return []*Term{v.L[0]}
	case *types.Interface:
		return []*Term{v.L[1]}
	}
	return nil
}

// checkAlloc: `check alloc <bound>` in the contract of the function under verification asks that every
// slice allocation of non-constant size is at most <bound> (an expression over the current state,
// typically "what the remaining input could describe").
func (x *Exec) checkAlloc(fr *Frame, st *State, in ssa.Instruction, n *Term) {
	fc := x.contracts[contractKey(x.top)]
	if fc == nil || fc.AllocBound == nil || n.IsLit || st.dry {
		return
	}
	b := x.evalSpec(&specScope{x: x, fr: fr, st: st, old: fr.entry}, fc.AllocBound.Expr)
	x.oblige(fr, st, "alloc", x.src(fr.fn, in.Pos(), "make")+":"+fc.AllocBound.Label, in.Pos(), BVCmp("bvsle", n, x.idx64(b)))
}

// reifyPtr gives an interior pointer a symbolic identity so that it can travel through interfaces.
func (x *Exec) reifyPtr(st *State, v Value) Value {
	id := x.c.Fresh("iptr", SInt)
	st.assume(IntCmp(">", id, IntLit(0)))
	x.locOf[id.Name] = v.Loc
	out := v
	out.L = []*Term{id}
	return out
}

// checkWriteRules: the `writes` clauses of the function under contract (see WriteRule). Evaluated for every
// direct heap write (a store at a reference), also in callees executed from their bodies; effects of callees
// taken by contract are not writes of this function (those callees carry the rule themselves).
func (x *Exec) checkWriteRules(st *State, k string, t *Term) {
	if st.dry || x.inInit || x.frameOff > 0 || t == nil || t.Op != "store" || x.curFr == nil || x.top == nil {
		return
	}
	fc := x.contracts[contractKey(x.top)]
	if fc == nil || len(fc.WriteRules) == 0 {
		return
	}
	ref := t.Args[1]
	if ref.Op == "const" && strings.HasPrefix(ref.Name, "ref_") {
		return // allocated during this call
	}
	hi, ok := x.heapInfo[k]
	if !ok {
		return
	}
	rfr := x.curFr.root()
	for _, wr := range fc.WriteRules {
		sc := &specScope{x: x, fr: rfr, st: st, old: rfr.entry}
		T := x.specType(sc, wr.Type)
		if T == nil {
			unsup("writes: unknown type %s", wr.Type)
		}
		var fam string
		var it Value
		switch tt := T.Underlying().(type) {
		case *types.Pointer:
			f, _, _ := x.c.famOf(tt.Elem())
			fam = f
			it = Value{T: T, L: []*Term{ref}}
		case *types.Slice:
			fam = "arr:" + x.c.elemFamName(tt.Elem())
			it = Value{T: T, L: []*Term{ref, BVLit64(0, 64), BVLit64(0, 64), BVLit64(0, 64)}}
		default:
			unsup("writes: %s is neither a pointer nor a slice type", wr.Type)
		}
		if hi.fam != fam {
			continue
		}
		path := x.c.leaves(hi.root)[hi.j].Path
		skip := false
		for _, e := range wr.Except {
			if path == "."+e || strings.HasPrefix(path, "."+e+".") {
				skip = true
			}
		}
		if skip {
			continue
		}
		g := x.evalSpec(sc.with("it", it), wr.Expr)
		pos := token.NoPos
		label := "write"
		if x.curIns != nil {
			pos = x.curIns.Pos()
			label = x.src(x.curFr.fn, pos, "write")
		}
		a0 := x.c.Named("alloc0", SInt)
		x.oblige(x.curFr, st, "writes", label+path+":"+wr.Label, pos, Or(IntCmp(">", ref, a0), g.L[0]))
	}
}
