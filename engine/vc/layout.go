package vc

import (
	"fmt"
	"go/types"
	"strings"
)

// Leaf describes one scalar component of a Go type in the flattened representation.
type Leaf struct {
	Path string // human readable path, e.g. ".PartialKey.len"
	S    Sort   // sort including array dimensions
	Base Sort   // sort without dimensions
	Dims int
	Kind byte       // 'n' number, 'b' bool, 'r' ref, 's' string, 't' iface tag, 'p' iface payload, 'o' slice off, 'l' slice len, 'c' slice cap, 'f' float(opaque)
	GoT  types.Type // Go type of the scalar where meaningful
}

var idxSort = SBV(64)

type unsupported struct{ msg string }

func unsup(f string, a ...any) { panic(unsupported{fmt.Sprintf(f, a...)}) }

func (c *Ctx) leaves(T types.Type) []Leaf {
	key := T
	if ls, ok := c.leafCache[key]; ok {
		return ls
	}
	ls := c.leaves0(T)
	c.leafCache[key] = ls
	return ls
}

func basicWidth(b *types.Basic) (w int, signed bool, ok bool) {
	switch b.Kind() {
	case types.Int8:
		return 8, true, true
	case types.Int16:
		return 16, true, true
	case types.Int32:
		return 32, true, true
	case types.Int64, types.Int, types.UntypedInt, types.UntypedRune:
		return 64, true, true
	case types.Uint8:
		return 8, false, true
	case types.Uint16:
		return 16, false, true
	case types.Uint32:
		return 32, false, true
	case types.Uint64, types.Uint, types.Uintptr:
		return 64, false, true
	}
	return 0, false, false
}

func (c *Ctx) leaves0(T types.Type) []Leaf {
	switch t := T.Underlying().(type) {
	case *types.Basic:
		if w, _, ok := basicWidth(t); ok {
			return []Leaf{{S: SBV(w), Base: SBV(w), Kind: 'n', GoT: T}}
		}
		switch t.Kind() {
		case types.Bool, types.UntypedBool:
			return []Leaf{{S: SBool, Base: SBool, Kind: 'b', GoT: T}}
		case types.String, types.UntypedString:
			return []Leaf{{S: SStr, Base: SStr, Kind: 's', GoT: T}}
		case types.Float32, types.Float64, types.UntypedFloat:
			return []Leaf{{S: SBV(64), Base: SBV(64), Kind: 'f', GoT: T}}
		case types.UnsafePointer:
			return []Leaf{{S: SInt, Base: SInt, Kind: 'r', GoT: T}}
		case types.UntypedNil:
			return []Leaf{{S: SInt, Base: SInt, Kind: 'r', GoT: T}}
		case types.Complex128, types.Complex64:
			return []Leaf{{S: SBV(64), Base: SBV(64), Kind: 'f', GoT: T}, {Path: ".im", S: SBV(64), Base: SBV(64), Kind: 'f', GoT: T}}
		}
		unsup("basic type %s", t)
	case *types.Pointer, *types.Map, *types.Chan, *types.Signature:
		return []Leaf{{S: SInt, Base: SInt, Kind: 'r', GoT: T}}
	case *types.Slice:
		return []Leaf{
			{Path: ".base", S: SInt, Base: SInt, Kind: 'r', GoT: T},
			{Path: ".off", S: idxSort, Base: idxSort, Kind: 'o', GoT: T},
			{Path: ".len", S: idxSort, Base: idxSort, Kind: 'l', GoT: T},
			{Path: ".cap", S: idxSort, Base: idxSort, Kind: 'c', GoT: T},
		}
	case *types.Interface:
		return []Leaf{
			{Path: ".tag", S: SInt, Base: SInt, Kind: 't', GoT: T},
			{Path: ".pay", S: SInt, Base: SInt, Kind: 'p', GoT: T},
		}
	case *types.Struct:
		var out []Leaf
		for i := 0; i < t.NumFields(); i++ {
			f := t.Field(i)
			for _, l := range c.leaves(f.Type()) {
				l.Path = "." + f.Name() + l.Path
				out = append(out, l)
			}
		}
		return out
	case *types.Array:
		var out []Leaf
		for _, l := range c.leaves(t.Elem()) {
			l.Path = "[]" + l.Path
			l.S = SArr(idxSort, l.S)
			l.Dims++
			out = append(out, l)
		}
		return out
	case *types.Tuple:
		var out []Leaf
		for i := 0; i < t.Len(); i++ {
			for _, l := range c.leaves(t.At(i).Type()) {
				l.Path = fmt.Sprintf("#%d%s", i, l.Path)
				out = append(out, l)
			}
		}
		return out
	case *types.TypeParam:
		unsup("type parameter %s (function not instantiated)", t)
	}
	unsup("type %s", T)
	return nil
}

// fieldRange returns the leaf range [lo,hi) of field i within struct type st.
func (c *Ctx) fieldRange(st *types.Struct, i int) (int, int) {
	lo := 0
	for k := 0; k < i; k++ {
		lo += len(c.leaves(st.Field(k).Type()))
	}
	return lo, lo + len(c.leaves(st.Field(i).Type()))
}

func typeName(T types.Type) string {
	s := types.TypeString(T, func(p *types.Package) string {
		path := p.Path()
		path = strings.TrimPrefix(path, "github.com/ChainSafe/gossamer/")
		return path
	})
	return s
}

// famOf returns the heap component family and root type for an object of type T living at a Ref.
func (c *Ctx) famOf(T types.Type) (fam string, root types.Type, isArr bool) {
	if a, ok := T.Underlying().(*types.Array); ok {
		return "arr:" + c.elemFamName(a.Elem()), a.Elem(), true
	}
	return "obj:" + c.objFamName(T), T, false
}

func (c *Ctx) objFamName(T types.Type) string {
	switch u := T.(type) {
	case *types.Named, *types.Alias:
		_ = u
		return typeName(T)
	}
	if b, ok := T.(*types.Basic); ok {
		switch b.Kind() {
		case types.Uint8:
			return "uint8"
		case types.Int32:
			return "int32"
		}
	}
	return runeWord.ReplaceAllString(byteWord.ReplaceAllString(typeName(T.Underlying()), "uint8"), "int32")
}

func (c *Ctx) elemFamName(E types.Type) string {
	if b, ok := E.Underlying().(*types.Basic); ok {
		// byte/uint8 and rune/int32 are the same types: one heap family each
		switch b.Kind() {
		case types.Uint8:
			return "uint8"
		case types.Int32:
			return "int32"
		}
		return b.Name()
	}
	if _, ok := E.Underlying().(*types.Pointer); ok {
		return typeName(E)
	}
	return c.objFamName(E)
}

func sanitize(s string) string {
	var sb strings.Builder
	for _, r := range s {
		switch {
		case r >= 'a' && r <= 'z', r >= 'A' && r <= 'Z', r >= '0' && r <= '9', r == '_', r == '.', r == '!', r == '$':
			sb.WriteRune(r)
		case r == '/':
			sb.WriteRune('.')
		case r == '*':
			sb.WriteString("ptr.")
		case r == '[':
			sb.WriteString("_L")
		case r == ']':
			sb.WriteString("R_")
		default:
			sb.WriteRune('_')
		}
	}
	return sb.String()
}
