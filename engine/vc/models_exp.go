package vc

import (
	"fmt"
	"go/token"
	"go/types"
)

// Models of the generic helpers of golang.org/x/exp/{maps,slices} and of sort.Strings that the overlay code of
// lib/runtime/storage uses. They are outside the module (no source under contract): each model is an assumed
// contract, reported in the evidence. Every model states less than or exactly what the library function does.
func registerExpModels(m map[string]Model) {
	// maps.Clone(m): nil for nil; otherwise a new map with the same domain, values and length
	m["golang.org/x/exp/maps.Clone"] = func(x *Exec, fr *Frame, st *State, args []Value, pos token.Pos) []Outcome {
		x.c.note("assumed: x/exp/maps.Clone returns a new map with exactly the entries of its argument (nil for nil)")
		mv := args[0]
		mf := x.mapFam(mv.T)
		src := mv.L[0]
		ref := x.newRef(st, "mapclone")
		dom, dk := x.mapComp(st, mf, "dom", 0)
		x.setRaw(st, dk, Store(dom, ref, Select(dom, src)))
		ln, lk := x.mapComp(st, mf, "len", 0)
		x.setRaw(st, lk, Store(ln, ref, Select(ln, src)))
		for j := range x.c.leaves(mf.V) {
			vc, vk := x.mapComp(st, mf, "val", j)
			x.setRaw(st, vk, Store(vc, ref, Select(vc, src)))
		}
		return retOne(st, Value{T: mv.T, L: []*Term{Ite(Eq(src, IntLit(0)), IntLit(0), ref)}})
	}
	// slices.Clone(s): nil for nil; otherwise a new array holding the same elements at the same positions
	m["golang.org/x/exp/slices.Clone"] = func(x *Exec, fr *Frame, st *State, args []Value, pos token.Pos) []Outcome {
		x.c.note("assumed: x/exp/slices.Clone returns a slice of a new array with the elements of its argument (nil for nil)")
		s := args[0]
		p := sl(s)
		et := s.T.Underlying().(*types.Slice).Elem()
		ref := x.newRef(st, "sliceclone")
		fam := "arr:" + x.c.elemFamName(et)
		for j := range x.c.leaves(et) {
			c := x.comp(st, fam, et, j)
			x.setComp(st, fam, et, j, Store(c, ref, Select(c, p.base)))
		}
		isNil := Eq(p.base, IntLit(0))
		return retOne(st, Value{T: s.T, L: []*Term{Ite(isNil, IntLit(0), ref), Ite(isNil, BVLit64(0, 64), p.off), Ite(isNil, BVLit64(0, 64), p.ln), Ite(isNil, BVLit64(0, 64), p.ln)}})
	}
	// maps.Keys(m): a new slice of len(m) elements, each a key of m, and every key of m is one of them
	m["golang.org/x/exp/maps.Keys"] = func(x *Exec, fr *Frame, st *State, args []Value, pos token.Pos) []Outcome {
		x.c.note("assumed: x/exp/maps.Keys returns a new slice of len(m) elements that are exactly the keys of m")
		mv := args[0]
		mf := x.mapFam(mv.T)
		src := mv.L[0]
		n := x.mapLen(st, mv)
		ST := types.NewSlice(mf.K)
		out := x.newSlice(st, ST, mf.K, n, n, "mapkeys")
		arr := x.c.Fresh("mapkeys", SArr(idxSort, mf.ks))
		fam := "arr:" + x.c.elemFamName(mf.K)
		c := x.comp(st, fam, mf.K, 0)
		x.setComp(st, fam, mf.K, 0, Store(c, out.L[0], arr))
		dom, _ := x.mapComp(st, mf, "dom", 0)
		d := Select(dom, src)
		i := Var("i!q", idxSort)
		st.assume(Quant("forall", []*Term{i}, Implies(BVCmp("bvult", i, n), And(Not(Eq(src, IntLit(0))), Select(d, Select(arr, i)))), Select(arr, i)))
		x.c.fresh++
		pos_ := fmt.Sprintf("mapkeys.pos!%d", x.c.fresh)
		x.c.declFun(pos_, []Sort{mf.ks}, idxSort)
		k := Var("k!q", mf.ks)
		pk := Apply(pos_, idxSort, k)
		st.assume(Quant("forall", []*Term{k}, Implies(And(Not(Eq(src, IntLit(0))), Select(d, k)), And(BVCmp("bvult", pk, n), Eq(Select(arr, pk), k))), Select(d, k)))
		return retOne(st, out)
	}
	// slices.BinarySearch(s, target): a position within [0, len(s)]; when found, the element there is the target.
	// (What the position means for a sorted slice is not modelled.)
	m["golang.org/x/exp/slices.BinarySearch"] = func(x *Exec, fr *Frame, st *State, args []Value, pos token.Pos) []Outcome {
		x.c.note("assumed: x/exp/slices.BinarySearch returns a position in [0, len(s)] and, when found, s[pos] == target (order not modelled)")
		s, t := args[0], args[1]
		p := sl(s)
		et := s.T.Underlying().(*types.Slice).Elem()
		if len(x.c.leaves(et)) != 1 {
			unsup("slices.BinarySearch over composite elements")
		}
		r := x.c.Fresh("bsearch_pos", idxSort)
		found := x.c.Fresh("bsearch_found", SBool)
		st.assume(BVCmp("bvule", r, p.ln))
		fam := "arr:" + x.c.elemFamName(et)
		c := x.comp(st, fam, et, 0)
		st.assume(Implies(found, And(BVCmp("bvult", r, p.ln), Eq(Select(Select(c, p.base), BVBin("bvadd", p.off, r)), t.L[0]))))
		i := Var("i!q", idxSort)
		elem := Select(Select(c, p.base), BVBin("bvadd", p.off, i))
		st.assume(Implies(Not(found), Quant("forall", []*Term{i}, Implies(BVCmp("bvult", i, p.ln), Not(Eq(elem, t.L[0]))), elem)))
		x.c.note("assumed: the slice searched by slices.BinarySearch is sorted (a key that is present is found)")
		return []Outcome{{St: st, Kind: OutReturn, Rets: []Value{scalar(tInt, r), boolV(found)}}}
	}
	// slices.Contains(s, v)
	m["golang.org/x/exp/slices.Contains"] = func(x *Exec, fr *Frame, st *State, args []Value, pos token.Pos) []Outcome {
		s, v := args[0], args[1]
		p := sl(s)
		et := s.T.Underlying().(*types.Slice).Elem()
		if len(x.c.leaves(et)) != 1 {
			unsup("slices.Contains over composite elements")
		}
		fam := "arr:" + x.c.elemFamName(et)
		c := x.comp(st, fam, et, 0)
		r := x.c.Fresh("contains", SBool)
		w := x.c.Fresh("contains_at", idxSort)
		st.assume(Implies(r, And(BVCmp("bvult", w, p.ln), Eq(Select(Select(c, p.base), BVBin("bvadd", p.off, w)), v.L[0]))))
		i := Var("i!q", idxSort)
		elem := Select(Select(c, p.base), BVBin("bvadd", p.off, i))
		st.assume(Implies(Not(r), Quant("forall", []*Term{i}, Implies(BVCmp("bvult", i, p.ln), Not(Eq(elem, v.L[0]))), elem)))
		return retOne(st, boolV(r))
	}
	// sort.Strings(s): the elements of s are permuted in place (the resulting order is not modelled)
	m["sort.Strings"] = func(x *Exec, fr *Frame, st *State, args []Value, pos token.Pos) []Outcome {
		x.c.note("assumed: sort.Strings permutes the elements of its argument in place (the order itself is not modelled)")
		s := args[0]
		p := sl(s)
		et := s.T.Underlying().(*types.Slice).Elem()
		fam := "arr:" + x.c.elemFamName(et)
		c := x.comp(st, fam, et, 0)
		old := Select(c, p.base)
		arr := x.c.Fresh("sorted", SArr(idxSort, SStr))
		x.c.fresh++
		pn := fmt.Sprintf("sort.perm!%d", x.c.fresh)
		qn := fmt.Sprintf("sort.inv!%d", x.c.fresh)
		x.c.declFun(pn, []Sort{idxSort}, idxSort)
		x.c.declFun(qn, []Sort{idxSort}, idxSort)
		i := Var("i!q", idxSort)
		rel := BVBin("bvsub", i, p.off)
		in := And(BVCmp("bvule", p.off, i), BVCmp("bvult", rel, p.ln))
		pi := Apply(pn, idxSort, i)
		qi := Apply(qn, idxSort, i)
		inP := And(BVCmp("bvule", p.off, pi), BVCmp("bvult", BVBin("bvsub", pi, p.off), p.ln))
		inQ := And(BVCmp("bvule", p.off, qi), BVCmp("bvult", BVBin("bvsub", qi, p.off), p.ln))
		// new[i] = old[perm(i)] with perm(i) in range; old[i] = new[inv(i)] with inv(i) in range; outside untouched
		st.assume(Quant("forall", []*Term{i}, Ite(in, And(inP, Eq(Select(arr, i), Select(old, pi))), Eq(Select(arr, i), Select(old, i))), Select(arr, i)))
		st.assume(Quant("forall", []*Term{i}, Implies(in, And(inQ, Eq(Select(old, i), Select(arr, qi)))), Select(old, i)))
		x.setComp(st, fam, et, 0, Store(c, p.base, arr))
		return []Outcome{{St: st, Kind: OutReturn}}
	}
}
