package vc

import (
	"bufio"
	"encoding/json"
	"fmt"
	"os"
	"path/filepath"
	"regexp"
	"sort"
	"strconv"
	"strings"
	"time"
)

var VerifDir = "/verif"

var clausePropRe = regexp.MustCompile(`#[a-z]+:(C\d\d)\.`)

type PropConfig struct {
	Pkgs        []string `json:"pkgs"`
	Composition string   `json:"composition,omitempty"`
	Residual    []string `json:"residual,omitempty"`
	Bounded     []string `json:"bounded,omitempty"`
}

type KnownFinding struct {
	Property   string `json:"property"`
	Obligation string `json:"obligation"`
	What       string `json:"what"`
	Input      string `json:"input,omitempty"`
	Fixed      string `json:"fixed,omitempty"` // "fixed: property=<id> <commit> <what failed>" records; suppress nothing
}

func loadKnownFindings() ([]KnownFinding, error) {
	f, err := os.Open(filepath.Join(VerifDir, "known_findings.jsonl"))
	if err != nil {
		if os.IsNotExist(err) {
			return nil, nil
		}
		return nil, err
	}
	defer f.Close()
	var out []KnownFinding
	sc := bufio.NewScanner(f)
	sc.Buffer(make([]byte, 1<<20), 1<<20)
	for sc.Scan() {
		line := strings.TrimSpace(sc.Text())
		if line == "" || strings.HasPrefix(line, "#") {
			continue
		}
		var k KnownFinding
		if err := json.Unmarshal([]byte(line), &k); err != nil {
			return nil, fmt.Errorf("known_findings.jsonl: %v", err)
		}
		out = append(out, k)
	}
	return out, nil
}

type oblRecord struct {
	Name    string  `json:"name"`
	Verdict string  `json:"verdict"`
	Solver  string  `json:"solver,omitempty"`
	Sec     float64 `json:"s"`
	Insts   int     `json:"instances"`
}

type evidence struct {
	PropertyID  string         `json:"property_id"`
	Tier        string         `json:"tier"`
	Seed        int            `json:"seed"`
	Level       string         `json:"level"`
	Coverage    map[string]any `json:"coverage"`
	Assumptions []string       `json:"assumptions"`
	WallS       float64        `json:"wall_s"`
	Violations  int            `json:"violations"`
}

func safeFile(s string) string {
	s = sanitize(s)
	if len(s) > 150 {
		s = s[:150]
	}
	return s
}

// CmdCheck runs the check of one property. Exit code 0: held; 1: violation; 2: infrastructure error.
func CmdCheck(prop, tier string) int {
	CurrentProperty = prop
	t0 := time.Now()
	if d := os.Getenv("VERIF_REPO"); d != "" {
		RepoDir = d
	}
	seed, _ := strconv.Atoi(os.Getenv("VERIF_SEED"))
	var cfgs map[string]PropConfig
	b, err := os.ReadFile(filepath.Join(VerifDir, "props.json"))
	if err != nil {
		fmt.Fprintln(os.Stderr, err)
		return 2
	}
	if err := json.Unmarshal(b, &cfgs); err != nil {
		fmt.Fprintln(os.Stderr, "props.json:", err)
		return 2
	}
	cfg, ok := cfgs[prop]
	if !ok {
		fmt.Fprintf(os.Stderr, "property %s has no check configured\n", prop)
		return 2
	}
	known, err := loadKnownFindings()
	if err != nil {
		fmt.Fprintln(os.Stderr, err)
		return 2
	}
	l, err := Load(cfg.Pkgs)
	if err != nil {
		fmt.Fprintln(os.Stderr, "load:", err)
		// A tree that does not compile cannot be checked: infrastructure error, not a verdict.
		return 2
	}
	e, err := l.Engine()
	if err != nil {
		fmt.Fprintln(os.Stderr, "contracts:", err)
		return 2
	}
	quickT, fullT := 6, 120 // stage 1: z3 5.1.0 alone; stage 2: race of the three solvers
	cross := false
	if tier == "thorough" {
		quickT, fullT = 10, 400
		cross = true
	}
	var keys []string
	for k, fc := range e.Contracts {
		for _, p := range fc.Props {
			if p == prop && !fc.Trusted {
				keys = append(keys, k)
			}
		}
	}
	sort.Strings(keys)
	if len(keys) == 0 {
		fmt.Fprintf(os.Stderr, "no contract serves property %s\n", prop)
		return 2
	}
	replayDir := filepath.Join(VerifDir, "replays", prop)
	os.RemoveAll(replayDir)
	os.MkdirAll(replayDir, 0o755)

	var records []oblRecord
	var funcs, unbound, undecidedFuncs, trustedUsed []string
	bySolver := map[string]int{}
	notes := map[string]bool{}
	solverS := 0.0
	nObl, nDis, nViol, nKnown := 0, 0, 0, 0
	var samples []any
	vac := map[string]int{"pre_reachable": 0, "return_reachable": 0, "functions": 0}
	var knownLines, violLines []string
	usedContracts := map[string]bool{}

	reportFail := func(name, kind, why, script, model string, fr *FuncResult, r *OblResult) {
		for _, k := range known {
			if k.Property == prop && k.Obligation == name && k.Fixed == "" {
				nKnown++
				knownLines = append(knownLines, fmt.Sprintf("KNOWN-FINDING: property=%s %s: %s", prop, name, k.What))
				return
			}
		}
		nViol++
		path := filepath.Join(replayDir, safeFile(name)+".json")
		rep := map[string]any{"property": prop, "obligation": name, "kind": kind, "reason": why, "solver_output": model}
		suffix := " no-failing-input-found"
		if fr != nil && r != nil && r.Verdict == VSat {
			if rr := TryReplay(l, e, fr, r, prop); rr != nil {
				rep["replay"] = rr
				if rr.Confirmed {
					suffix = ""
				}
			}
		}
		if script != "" {
			sp := filepath.Join(replayDir, safeFile(name)+".smt2")
			os.WriteFile(sp, []byte(script), 0o644)
			rep["smt_script"] = sp
		}
		jb, _ := json.MarshalIndent(rep, "", " ")
		os.WriteFile(path, jb, 0o644)
		violLines = append(violLines, fmt.Sprintf("VIOLATION property=%s replay=%s obligation=%s%s", prop, path, name, suffix))
	}

	for _, k := range keys {
		fn, ok := l.Funcs[k]
		if !ok {
			unbound = append(unbound, k)
			continue
		}
		fc := e.Contracts[k]
		fr := e.GenVCs(fn, fc)
		funcs = append(funcs, k+" @ "+strings.TrimPrefix(fr.Pos, RepoDir+"/"))
		for n := range fr.Exec.c.Notes {
			notes[n] = true
		}
		for c := range fr.Exec.usedContracts {
			usedContracts[c] = true
		}
		if fr.Unsupported != "" {
			undecidedFuncs = append(undecidedFuncs, k+": "+fr.Unsupported)
			nObl++
			records = append(records, oblRecord{Name: k + "#subset", Verdict: "outside-subset"})
			reportFail(k+"#subset", "subset", "function is outside the verifier's subset: "+fr.Unsupported, "", "", nil, nil)
			continue
		}
		// vacuity guards
		vac["functions"]++
		if fr.Exec.CheckSat(fr.EntryPC, quickT) != VUnsat { // only a refuted precondition is vacuity
			vac["pre_reachable"]++
		} else {
			nObl++
			records = append(records, oblRecord{Name: k + "#vacuity:pre", Verdict: "vacuous"})
			reportFail(k+"#vacuity:pre", "vacuity", "precondition (with assumed contracts) is unsatisfiable or undecided: proof would be vacuous", "", "", nil, nil)
		}
		reach := false
		for i, rp := range fr.Returns {
			if i > 8 {
				break
			}
			if fr.Exec.CheckSat(rp, quickT) != VUnsat {
				reach = true
				break
			}
		}
		if reach || len(fr.Returns) == 0 {
			vac["return_reachable"]++
		} else {
			nObl++
			records = append(records, oblRecord{Name: k + "#vacuity:return", Verdict: "vacuous"})
			reportFail(k+"#vacuity:return", "vacuity", "no returning path is satisfiable: assumptions contradictory", "", "", nil, nil)
		}
		// every clause "A ==> B" must have its antecedent reachable on some returning path: an implication
		// whose antecedent no path can satisfy (contradictory assumed contracts, a success that cannot
		// happen any more) would be proved vacuously. Only a refuted cover counts; undecided covers pass.
		for _, lab := range fr.CoverOrder {
			insts := fr.Covers[lab]
			covered := false
			for n, ci := range insts {
				if n >= 32 {
					covered = true // too many paths to enumerate: undecided covers pass
					break
				}
				if ci.Cond.IsTrue() || fr.Exec.CheckSatWith(ci.PC, ci.Cond, quickT) != VUnsat {
					covered = true
					break
				}
			}
			vac["antecedents"]++
			if covered {
				vac["antecedents_reachable"]++
			} else {
				nObl++
				records = append(records, oblRecord{Name: k + "#cover:" + lab, Verdict: "vacuous"})
				reportFail(k+"#cover:"+lab, "vacuity", "the antecedent of this clause is unreachable on every returning path: the clause would hold vacuously (contradictory assumptions, or the case it describes can no longer occur)", "", "", nil, nil)
			}
		}
		knownOpen := map[string]bool{}
		for _, kf := range known {
			if kf.Property == prop && kf.Fixed == "" {
				knownOpen[kf.Obligation] = true
			}
		}
		rs := Discharge(fr, DischargeOpts{QuickTimeout: quickT, FullTimeout: fullT, Workers: 16, CrossCheck: cross, GetValues: paramLeafTerms(fr), KnownOpen: knownOpen})
		for i := range rs {
			r := &rs[i]
			// a clause labelled [Cxx.name] belongs to property Cxx only (a function may serve several properties)
			if m := clausePropRe.FindStringSubmatch(r.Name); m != nil && m[1] != prop {
				continue
			}
			nObl++
			solverS += r.Dur.Seconds()
			rec := oblRecord{Name: r.Name, Verdict: r.Verdict.String(), Solver: r.Solver, Sec: r.Dur.Seconds(), Insts: r.Insts}
			if r.Trivial {
				rec.Solver = "simplifier"
			}
			records = append(records, rec)
			if r.Verdict == VUnsat {
				nDis++
				bySolver[rec.Solver]++
				if len(samples) < 6 && !r.Trivial {
					samples = append(samples, map[string]any{"obligation": r.Name, "verdict": "unsat", "solver": r.Solver, "instances": r.Insts})
				}
				continue
			}
			why := "solver found a counterexample to the obligation"
			if r.Verdict == VUnknown {
				why = "no solver could decide the obligation within the time limit"
			}
			reportFail(r.Name, r.Kind, why, r.Script, r.Model, fr, r)
		}
	}
	for c := range usedContracts {
		if fc := e.Contracts[c]; fc != nil && fc.Trusted {
			trustedUsed = append(trustedUsed, "assumed contract: "+c)
		} else {
			trustedUsed = append(trustedUsed, "callee contract (proved under its own property): "+c)
		}
	}
	sort.Strings(trustedUsed)
	for _, ln := range knownLines {
		fmt.Println(ln)
	}
	for _, ln := range violLines {
		fmt.Println(ln)
	}
	claimed := nObl - nKnown
	level := "proof"
	cov := map[string]any{
		"obligations":              claimed,
		"discharged":               nDis,
		"checker_cmd":              fmt.Sprintf("bin/vcheck check --property %s --tier %s", prop, tier),
		"trusted_base":             append([]string{"engine: own VC generator over go/ssa (unverified)", "SMT solvers z3 4.8.12 / z3 5.1.0 / cvc5 1.0.3"}, trustedUsed...),
		"functions_under_contract": funcs,
		"by_solver":                bySolver,
		"solver_s":                 solverS,
		"known_findings":           knownLines,
		"undecided_functions":      undecidedFuncs,
		"unbound_contracts":        unbound,
		"vacuity":                  vac,
		"obligation_list":          records,
		"samples":                  samples,
		"composition":              cfg.Composition,
		"residual_unverified":      cfg.Residual,
		"bounded":                  cfg.Bounded,
		"integer_model":            "machine integers modelled exactly as fixed-width bit-vectors (int/uint = 64 bit); no mathematical-integer idealisation",
		"load_s":                   l.Dur.Seconds(),
	}
	if claimed == 0 || nDis == 0 {
		level = "other"
		cov["explanation"] = "no obligation was discharged on this run (all targets unbound, unsupported or known findings)"
	}
	ev := evidence{PropertyID: prop, Tier: tier, Seed: seed, Level: level, Coverage: cov, Assumptions: sortedNotes(notes), WallS: time.Since(t0).Seconds(), Violations: nViol}
	os.MkdirAll(filepath.Join(VerifDir, "evidence"), 0o755)
	jb, _ := json.MarshalIndent(ev, "", " ")
	if err := os.WriteFile(filepath.Join(VerifDir, "evidence", prop+".json"), jb, 0o644); err != nil {
		fmt.Fprintln(os.Stderr, err)
		return 2
	}
	fmt.Printf("property %s: %d functions, %d obligations, %d discharged, %d known findings, %d violations, %.1fs\n", prop, len(funcs), claimed, nDis, nKnown, nViol, time.Since(t0).Seconds())
	if nViol > 0 {
		return 1
	}
	return 0
}

func paramLeafTerms(fr *FuncResult) []*Term {
	var out []*Term
	for _, p := range fr.ParamTerms {
		for _, t := range p.V.L {
			if t != nil {
				out = append(out, t)
			}
		}
	}
	return out
}
