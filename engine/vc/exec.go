package vc

import (
	"fmt"
	"go/ast"
	"go/constant"
	"go/token"
	"go/types"
	"math/big"
	"os"
	"sort"
	"strings"
	"sync"

	"golang.org/x/tools/go/ssa"
)

// Obligation instance: under path condition PC the Goal must hold.
type OblInst struct {
	PC   *pcNode
	Goal *Term
}

type Obligation struct {
	Func  string // top-level function (short name)
	Kind  string
	Label string
	Pos   token.Pos
	Insts []OblInst
	Note  string
}

func (o *Obligation) Name() string { return o.Func + "#" + o.Kind + ":" + o.Label }

type Frame struct {
	fn       *ssa.Function
	env      map[ssa.Value]Value
	names    map[string]ssa.Value
	defers   []deferred
	loopSnap map[*ssa.BasicBlock]*loopSnap
	loopIter map[*ssa.BasicBlock]int
	dryBody  map[*ssa.BasicBlock]bool
	chain    string // inlining chain for obligation labels
	entry    *State // state at function entry (for old())
	args     []Value
	fc       *FuncContract
	depth    int
	parent   *Frame // the frame of the caller, for callees executed from their bodies (inlined)
}

// root is the frame of the function under contract that (transitively) inlined this frame.
func (f *Frame) root() *Frame {
	for f.parent != nil {
		f = f.parent
	}
	return f
}

type deferred struct {
	call *ssa.CallCommon
	fn   Value
	args []Value
	pos  token.Pos
}

type loopSnap struct {
	measure []*Term
	st      *State
	env     map[ssa.Value]Value // register values at the loop head (for prev(...) in step clauses)
	names   map[string]ssa.Value
}

func (f *Frame) clone() *Frame {
	n := *f
	n.env = make(map[ssa.Value]Value, len(f.env))
	for k, v := range f.env {
		n.env[k] = v
	}
	n.names = make(map[string]ssa.Value, len(f.names))
	for k, v := range f.names {
		n.names[k] = v
	}
	n.defers = append([]deferred(nil), f.defers...)
	n.loopIter = make(map[*ssa.BasicBlock]int, len(f.loopIter))
	for k, v := range f.loopIter {
		n.loopIter[k] = v
	}
	n.loopSnap = make(map[*ssa.BasicBlock]*loopSnap, len(f.loopSnap))
	for k, v := range f.loopSnap {
		n.loopSnap[k] = v
	}
	return &n
}

type OutKind int

const (
	OutReturn OutKind = iota
	OutPanic
	OutCut
)

type Outcome struct {
	St   *State
	Rets []Value
	Kind OutKind
	Fr   *Frame // the frame in which the return executed (local names of that path, for postconditions)
}

type Exec struct {
	callerFr *Frame // set by callFn around runFunc: the frame that inlines the callee
	snapRefs []*Term // backing arrays that are read-only snapshots of arrays nested in structs
	snapInit bool
	snapFams map[string]bool
	c         *Ctx
	prog      *ssa.Program
	fset      *token.FileSet
	heapInfo  map[string]heapInfo
	defs      map[string]*Term
	obls      map[string]*Obligation
	oblOrder  []string
	contracts map[string]*FuncContract
	specs     *SpecEnv
	top       *ssa.Function
	topName   string
	paths     int
	maxPaths  int
	maxInline int
	loopInfos map[*ssa.Function]*loopInfo
	posText   map[*ssa.Function]map[token.Pos]string
	srcCache  map[string][]byte
	globInit  map[*ssa.Global]Value // constant globals' initial values
	globConst map[*ssa.Global]bool
	initPC    []*Term
	noPanic   bool
	autoInv   map[autoKey]autoInvRec
	fnCells   map[string]*FuncVal
	locOf     map[string]*Loc
	rawSorts  map[string]Sort
	dynTags   map[string]int
	limitReaders map[string]limitReader
	logFuncs  map[string]*ssa.Function
	models    map[string]Model
	inlineExt map[string]bool
	usedContracts map[string]bool
	globFacts map[string][]globFact
	initDone  map[*ssa.Package]bool
	globConstOK map[*ssa.Global]bool
	inInit    bool
	initPkg   *ssa.Package
	heapPrefix string
	mayCallMemo map[*ssa.Function]map[string]bool
	mayCallAll map[*ssa.Function]bool
	guards     []guard
	inSpec     int
	qmu        sync.Mutex
	preferInline bool
	checkLocks bool
	frameOn   bool
	frameOff  int
	modRefs   []*Term
	alloc0    *Term
	curIns    ssa.Instruction
	curFr     *Frame
	curSt     *State
	extraAxioms []*Term
	axiomSeen map[string]bool
	qcount    int
	ghostVars map[string]func(*specScope) Value
	specBuiltins map[string]func(*specScope, *ECall) Value
	Stats     struct{ Paths, Instrs int }
}

type loopInfo struct {
	headers map[*ssa.BasicBlock]int                     // header -> ordinal (1-based)
	body    map[*ssa.BasicBlock]map[*ssa.BasicBlock]bool // header -> body set
}

func (x *Exec) loops(fn *ssa.Function) *loopInfo {
	if li, ok := x.loopInfos[fn]; ok {
		return li
	}
	li := &loopInfo{headers: map[*ssa.BasicBlock]int{}, body: map[*ssa.BasicBlock]map[*ssa.BasicBlock]bool{}}
	for _, b := range fn.Blocks {
		for _, s := range b.Succs {
			if s.Dominates(b) { // back edge b -> s
				if li.body[s] == nil {
					li.body[s] = map[*ssa.BasicBlock]bool{s: true}
				}
				// natural loop: nodes that reach b without passing s
				var stack []*ssa.BasicBlock
				if !li.body[s][b] {
					li.body[s][b] = true
					stack = append(stack, b)
				}
				for len(stack) > 0 {
					n := stack[len(stack)-1]
					stack = stack[:len(stack)-1]
					for _, p := range n.Preds {
						if !li.body[s][p] {
							li.body[s][p] = true
							stack = append(stack, p)
						}
					}
				}
			}
		}
	}
	var hs []*ssa.BasicBlock
	for h := range li.body {
		hs = append(hs, h)
	}
	sort.Slice(hs, func(i, j int) bool { return hs[i].Index < hs[j].Index })
	for i, h := range hs {
		li.headers[h] = i + 1
	}
	x.loopInfos[fn] = li
	return li
}

func shortFuncName(fn *ssa.Function) string {
	s := fn.String()
	s = strings.ReplaceAll(s, "github.com/ChainSafe/gossamer/", "")
	return s
}

// ---------- obligations ----------

// CurrentProperty is the property whose check is running (empty outside `check`).
var CurrentProperty string

func (x *Exec) oblige(fr *Frame, st *State, kind, label string, pos token.Pos, goal *Term) {
	if st.dry {
		return
	}
	if panicKinds[kind] && !x.noPanic {
		return
	}
	// a clause label may end in "@C02" or "@C02,C09": the clause is an obligation only in the checks of those
	// properties (it is assumed at call sites everywhere); the tag is not part of the obligation's name
	if i := strings.LastIndex(label, "@C"); i >= 0 && !strings.ContainsAny(label[i:], " >:()") {
		tags := strings.Split(label[i+1:], ",")
		label = label[:i]
		if CurrentProperty != "" {
			found := false
			for _, t := range tags {
				if t == CurrentProperty {
					found = true
				}
			}
			if !found {
				return
			}
		}
	}
	if fr != nil && fr.chain != "" {
		label = fr.chain + ">" + label
	}
	key := kind + ":" + label
	o, ok := x.obls[key]
	if !ok {
		o = &Obligation{Func: x.topName, Kind: kind, Label: label, Pos: pos}
		x.obls[key] = o
		x.oblOrder = append(x.oblOrder, key)
	}
	o.Insts = append(o.Insts, OblInst{PC: st.pc, Goal: goal})
}

func (x *Exec) src(fn *ssa.Function, pos token.Pos, kind string) string {
	if !pos.IsValid() {
		return kind
	}
	m, ok := x.posText[fn]
	if !ok {
		m = map[token.Pos]string{}
		x.posText[fn] = m
		root := fn
		for root.Parent() != nil {
			root = root.Parent()
		}
		if syn := root.Syntax(); syn != nil {
			ast.Inspect(syn, func(n ast.Node) bool {
				var p token.Pos
				switch e := n.(type) {
				case *ast.IndexExpr:
					p = e.Lbrack
				case *ast.SliceExpr:
					p = e.Lbrack
				case *ast.StarExpr:
					p = e.Star
				case *ast.SelectorExpr:
					p = e.Sel.Pos()
				case *ast.CallExpr:
					p = e.Lparen
				case *ast.BinaryExpr:
					p = e.OpPos
				case *ast.TypeAssertExpr:
					p = e.Lparen
				case *ast.UnaryExpr:
					p = e.OpPos
				case *ast.AssignStmt:
					p = e.TokPos
				case *ast.IncDecStmt:
					p = e.TokPos
				case *ast.RangeStmt:
					p = e.For
				default:
					return true
				}
				if _, dup := m[p]; !dup {
					m[p] = x.nodeText(n)
				}
				return true
			})
		}
	}
	if t, ok := m[pos]; ok {
		return t
	}
	return kind
}

func (x *Exec) nodeText(n ast.Node) string {
	p1, p2 := x.fset.Position(n.Pos()), x.fset.Position(n.End())
	b, ok := x.srcCache[p1.Filename]
	if !ok {
		b, _ = os.ReadFile(p1.Filename)
		x.srcCache[p1.Filename] = b
	}
	if p1.Offset < 0 || p2.Offset > len(b) || p1.Offset > p2.Offset {
		return "?"
	}
	s := string(b[p1.Offset:p2.Offset])
	s = strings.Join(strings.Fields(s), "")
	if len(s) > 70 {
		s = s[:70] + "…"
	}
	return s
}

// ---------- values ----------

func (x *Exec) constValue(c *ssa.Const) Value {
	T := c.Type()
	if c.Value == nil {
		return x.zero(T)
	}
	switch u := T.Underlying().(type) {
	case *types.Basic:
		if w, _, ok := basicWidth(u); ok {
			v, _ := new(big.Int).SetString(constant.ToInt(c.Value).ExactString(), 10)
			if v == nil {
				unsup("const %s", c)
			}
			return Value{T: T, L: []*Term{BVLit(v, w)}}
		}
		switch {
		case u.Info()&types.IsBoolean != 0:
			return Value{T: T, L: []*Term{BoolLit(constant.BoolVal(c.Value))}}
		case u.Info()&types.IsString != 0:
			return Value{T: T, L: []*Term{x.strLit(constant.StringVal(c.Value))}}
		case u.Info()&types.IsFloat != 0:
			return Value{T: T, L: []*Term{x.c.Named("flt_"+sanitize(c.Value.ExactString()), SBV(64))}}
		}
	}
	unsup("const %s of type %s", c, T)
	return Value{}
}

func (x *Exec) strLit(s string) *Term {
	if s == "" {
		return Var("str.empty", SStr)
	}
	if t, ok := x.c.strLits[s]; ok {
		return t
	}
	t := x.c.Fresh("strlit", SStr)
	x.c.strLits[s] = t
	ax := []*Term{Eq(Apply("str.len", idxSort, t), BVLit64(int64(len(s)), 64))}
	if len(s) <= 16 {
		for i := 0; i < len(s); i++ {
			ax = append(ax, Eq(Apply("str.at", SBV(8), t, BVLit64(int64(i), 64)), BVLit64(int64(s[i]), 8)))
		}
	}
	x.c.axioms = append(x.c.axioms, And(ax...))
	return t
}

func (x *Exec) val(fr *Frame, v ssa.Value) Value {
	switch c := v.(type) {
	case *ssa.Const:
		return x.constValue(c)
	case *ssa.Global:
		x.touchGlobal(c)
		return x.globalAddr(c)
	case *ssa.Function:
		return Value{T: c.Type(), L: []*Term{IntLit(int64(1000000 + x.c.typeTag(types.NewPointer(types.Typ[types.Bool]))))}, Fn: &FuncVal{Fn: c}}
	case *ssa.Builtin:
		unsup("builtin %s used as value", c.Name())
	}
	r, ok := fr.env[v]
	if !ok {
		unsup("value %s (%T) not in environment of %s", v.Name(), v, fr.fn.Name())
	}
	return r
}

func (x *Exec) globalAddr(g *ssa.Global) Value {
	id, ok := x.c.globals[g]
	if !ok {
		id = len(x.c.globals) + 1
		x.c.globals[g] = id
	}
	et := g.Type().(*types.Pointer).Elem()
	fam, root, _ := x.c.famOf(et)
	ref := IntLit(int64(-id))
	return Value{T: g.Type(), L: []*Term{ref}, Loc: &Loc{Fam: fam, RootT: root, Ref: ref, Lo: 0, Hi: len(x.c.leaves(root)), T: et}}
}

func isSigned(T types.Type) bool {
	if b, ok := T.Underlying().(*types.Basic); ok {
		_, s, _ := basicWidth(b)
		return s
	}
	return false
}

func isInteger(T types.Type) bool {
	if b, ok := T.Underlying().(*types.Basic); ok {
		_, _, ok := basicWidth(b)
		return ok
	}
	return false
}
func isFloat(T types.Type) bool {
	if b, ok := T.Underlying().(*types.Basic); ok {
		return b.Info()&types.IsFloat != 0
	}
	return false
}
func isString(T types.Type) bool {
	if b, ok := T.Underlying().(*types.Basic); ok {
		return b.Info()&types.IsString != 0
	}
	return false
}
func isBool(T types.Type) bool {
	if b, ok := T.Underlying().(*types.Basic); ok {
		return b.Info()&types.IsBoolean != 0
	}
	return false
}

func scalar(T types.Type, t *Term) Value { return Value{T: T, L: []*Term{t}} }

// define gives a name to a term so that VCs stay small.
func (x *Exec) define(st *State, hint string, t *Term) *Term {
	if t.IsLit || t.Op == "const" {
		return t
	}
	v := x.c.Fresh(hint, t.S)
	v.Def = t
	st.assume(Eq(v, t))
	x.defs[v.Name] = t
	return v
}

func (x *Exec) defineValue(st *State, hint string, v Value) Value {
	out := v
	out.L = make([]*Term, len(v.L))
	for i, t := range v.L {
		if t == nil {
			continue
		}
		out.L[i] = x.define(st, hint, t)
	}
	return out
}

// equality of two values of the same type (structural)
func (x *Exec) valuesEqual(a, b Value) *Term {
	if len(a.L) != len(b.L) {
		unsup("comparing values of different shapes %s / %s", a.T, b.T)
	}
	ls := x.c.leaves(a.T)
	var cs []*Term
	for i := range a.L {
		if a.L[i] == nil || b.L[i] == nil {
			unsup("comparison of interior pointer")
		}
		if i < len(ls) && ls[i].Kind == 'f' {
			cs = append(cs, Eq(a.L[i], b.L[i]))
			continue
		}
		cs = append(cs, Eq(a.L[i], b.L[i]))
	}
	return And(cs...)
}

// ---------- function execution ----------

type pathLimit struct{}

func (x *Exec) runFunc(st *State, fn *ssa.Function, args []Value, binds []Value, chain string, depth int, fc *FuncContract) []Outcome {
	if len(fn.Blocks) == 0 {
		unsup("function %s has no body", fn)
	}
	fr := &Frame{parent: x.callerFr, fn: fn, env: map[ssa.Value]Value{}, names: map[string]ssa.Value{}, loopSnap: map[*ssa.BasicBlock]*loopSnap{}, loopIter: map[*ssa.BasicBlock]int{}, chain: chain, depth: depth, fc: fc}
	for i, p := range fn.Params {
		fr.env[p] = args[i]
		fr.names[p.Name()] = p
	}
	for i, fv := range fn.FreeVars {
		fr.env[fv] = binds[i]
		fr.names[fv.Name()] = fv
	}
	fr.args = args
	fr.entry = st.clone()
	return x.run(fr, st, fn.Blocks[0], nil, 0)
}

func (x *Exec) run(fr *Frame, st *State, b *ssa.BasicBlock, pred *ssa.BasicBlock, start int) []Outcome {
	for {
		if fr.dryBody != nil && !fr.dryBody[b] {
			return nil
		}
		if start == 0 {
			// block entry
			li := x.loops(fr.fn)
			if ord, isHeader := li.headers[b]; isHeader && pred != nil {
				lc := x.loopContract(fr, ord)
				if lc != nil && lc.Unroll > 0 && !st.dry {
					// bounded-by-construction loop: unrolled, with an unwinding obligation
					x.evalPhis(fr, st, b, pred)
					if li.body[b][pred] {
						fr.loopIter[b]++
						if fr.loopIter[b] > lc.Unroll {
							x.oblige(fr, st, "unwind", fmt.Sprintf("loop%d:at_most_%d_iterations", ord, lc.Unroll), b.Instrs[0].Pos(), False)
							return nil
						}
					} else {
						fr.loopIter[b] = 0
					}
				} else if li.body[b][pred] {
					// back edge
					x.evalPhis(fr, st, b, pred)
					x.loopBack(fr, st, b, ord)
					return nil
				} else {
					x.evalPhis(fr, st, b, pred)
					x.loopEnter(fr, st, b, ord)
				}
			} else if pred != nil {
				x.evalPhis(fr, st, b, pred)
			}
		}
		next, npred, outs, done := x.runInstrs(fr, st, b, start)
		if done {
			return outs
		}
		pred, b, start = npred, next, 0
	}
}

func (x *Exec) evalPhis(fr *Frame, st *State, b, pred *ssa.BasicBlock) {
	idx := -1
	for i, p := range b.Preds {
		if p == pred {
			idx = i
		}
	}
	var phis []*ssa.Phi
	var vals []Value
	for _, ins := range b.Instrs {
		p, ok := ins.(*ssa.Phi)
		if !ok {
			break
		}
		phis = append(phis, p)
		vals = append(vals, x.val(fr, p.Edges[idx]))
	}
	for i, p := range phis {
		v := vals[i]
		v.T = p.Type()
		fr.env[p] = v
		if p.Comment != "" {
			fr.names[p.Comment] = p
		}
	}
}

// runInstrs executes instructions of b from index start. Returns the successor or outcomes.
func (x *Exec) runInstrs(fr *Frame, st *State, b *ssa.BasicBlock, start int) (next, pred *ssa.BasicBlock, outs []Outcome, done bool) {
	for i := start; i < len(b.Instrs); i++ {
		ins := b.Instrs[i]
		x.Stats.Instrs++
		x.curIns, x.curFr, x.curSt = ins, fr, st
		switch in := ins.(type) {
		case *ssa.Phi:
			continue
		case *ssa.DebugRef:
			if id, ok := in.Expr.(*ast.Ident); ok {
				// a name bound to the address of a variable (a captured variable of a closure, an escaping
				// local) keeps denoting that variable: specifications read its current value through the
				// address; a later reference (a load of the variable) must not rebind the name to the
				// value that load happened to see
				cur, bound := fr.names[id.Name]
				_, curFV := cur.(*ssa.FreeVar)
				_, curAl := cur.(*ssa.Alloc)
				if bound && (curFV || curAl) && !in.IsAddr {
					// (loads of the variable and the values stored into it both come as non-address
					// references; the variable's address already gives its current value)
					continue
				}
				fr.names[id.Name] = in.X
			}
			continue
		case *ssa.Jump:
			return b.Succs[0], b, nil, false
		case *ssa.If:
			c := x.val(fr, in.Cond).L[0]
			if c.IsTrue() {
				return b.Succs[0], b, nil, false
			}
			if c.IsFalse() {
				return b.Succs[1], b, nil, false
			}
			x.paths++
			if x.paths > x.maxPaths {
				unsup("path limit %d exceeded in %s", x.maxPaths, x.topName)
			}
			st2, fr2 := st.clone(), fr.clone()
			st.assume(c)
			st2.assume(Not(c))
			o1 := x.run(fr, st, b.Succs[0], b, 0)
			o2 := x.run(fr2, st2, b.Succs[1], b, 0)
			return nil, nil, append(o1, o2...), true
		case *ssa.Return:
			var rets []Value
			for _, r := range in.Results {
				rets = append(rets, x.val(fr, r))
			}
			return nil, nil, []Outcome{{St: st, Rets: rets, Kind: OutReturn, Fr: fr}}, true
		case *ssa.Panic:
			x.oblige(fr, st, "panic", x.src(fr.fn, in.Pos(), "panic"), in.Pos(), x.panicAllowed(fr, st))
			return nil, nil, []Outcome{{St: st, Kind: OutPanic}}, true
		case *ssa.RunDefers:
			outs := x.runDefers(fr, st)
			if len(outs) == 1 && outs[0].Kind == OutReturn {
				if outs[0].St != st {
					*st = *outs[0].St // the caller (run) keeps this pointer across basic blocks
				}
				continue
			}
			// multiple outcomes: continue each
			var all []Outcome
			for k, o := range outs {
				if o.Kind != OutReturn {
					all = append(all, o)
					continue
				}
				f := fr
				if k < len(outs)-1 {
					f = fr.clone()
				}
				all = append(all, x.run(f, o.St, b, nil, i+1)...)
			}
			return nil, nil, all, true
		case *ssa.Call:
			base := st.pc
			res := x.call(fr, st, in, &in.Call, in.Pos())
			nres := len(res)
			if len(res) > 1 {
				res = x.mergeOutcomes(res, base)
			}
			if os.Getenv("VCHECK_DEBUG") != "" && nres > 1 {
				fmt.Fprintf(os.Stderr, "  [call %s: %d outcomes, %d after merging]\n", in.Call.String(), nres, len(res))
			}
			if len(res) == 1 && res[0].Kind == OutReturn {
				if res[0].St != st {
					// the merged state replaces the contents of the state object the caller (run) keeps
					// across basic blocks (assigning the local pointer alone lost it at the block's end)
					*st = *res[0].St
				}
				fr.env[in] = x.packResults(in.Type(), res[0].Rets)
				continue
			}
			var all []Outcome
			nret := 0
			for _, o := range res {
				if o.Kind == OutReturn {
					nret++
				}
			}
			seen := 0
			for _, o := range res {
				if o.Kind != OutReturn {
					if o.Kind == OutPanic {
						all = append(all, o)
					}
					continue
				}
				seen++
				f := fr
				if seen < nret {
					f = fr.clone()
				}
				f.env[in] = x.packResults(in.Type(), o.Rets)
				all = append(all, x.run(f, o.St, b, nil, i+1)...)
			}
			return nil, nil, all, true
		case *ssa.Defer:
			d := deferred{call: &in.Call, pos: in.Pos()}
			if !in.Call.IsInvoke() {
				d.fn = x.calleeValue(fr, &in.Call)
			} else {
				d.fn = x.val(fr, in.Call.Value)
			}
			for _, a := range in.Call.Args {
				d.args = append(d.args, x.val(fr, a))
			}
			fr.defers = append(fr.defers, d)
			continue
		case *ssa.Go:
			x.c.note("goroutine started in %s: not modelled (effects ignored)", shortFuncName(fr.fn))
			continue
		default:
			x.step(fr, st, ins)
		}
	}
	unsup("block %d of %s fell off the end", b.Index, fr.fn)
	return
}

func (x *Exec) packResults(T types.Type, rets []Value) Value {
	if tup, ok := T.(*types.Tuple); ok {
		if tup.Len() == 0 {
			return Value{T: T}
		}
		v := Value{T: T, Tup: rets}
		return v
	}
	if len(rets) == 1 {
		r := rets[0]
		return r
	}
	if len(rets) == 0 {
		return Value{T: T}
	}
	unsup("packResults")
	return Value{}
}

func (x *Exec) panicAllowed(fr *Frame, st *State) *Term {
	// explicit panic is an obligation "unreachable" unless the contract lists panics_when.
	if fr.fc != nil && len(fr.fc.PanicsWhen) > 0 && fr.depth == 0 {
		var cs []*Term
		for _, cl := range fr.fc.PanicsWhen {
			v := x.evalSpec(&specScope{x: x, fr: fr, st: fr.entry, old: fr.entry}, cl.Expr)
			cs = append(cs, v.L[0])
		}
		return Or(cs...)
	}
	return False
}

func (x *Exec) runDefers(fr *Frame, st *State) []Outcome {
	outs := []Outcome{{St: st, Kind: OutReturn}}
	for i := len(fr.defers) - 1; i >= 0; i-- {
		d := fr.defers[i]
		var next []Outcome
		for _, o := range outs {
			if o.Kind != OutReturn {
				next = append(next, o)
				continue
			}
			res := x.callValue(fr, o.St, d.call, d.fn, d.args, d.pos)
			for _, r := range res {
				r.Rets = nil
				next = append(next, r)
			}
		}
		outs = next
	}
	fr.defers = nil
	return outs
}

// ---------- loops ----------

func (x *Exec) loopContract(fr *Frame, ord int) *LoopContract {
	fc := fr.fc
	if fc == nil {
		fc = x.contracts[contractKey(fr.fn)]
	}
	if fc == nil {
		return nil
	}
	return fc.Loops[ord]
}

func (x *Exec) loopEnter(fr *Frame, st *State, h *ssa.BasicBlock, ord int) {
	lc := x.loopContract(fr, ord)
	label := fmt.Sprintf("loop%d", ord)
	// 1. invariants on entry
	if lc != nil {
		for _, inv := range lc.Invariants {
			v := x.evalSpec(&specScope{x: x, fr: fr, st: st, old: fr.entry}, inv.Expr)
			x.oblige(fr, st, "inv.init", label+":"+inv.Label, h.Instrs[0].Pos(), v.L[0])
		}
	}
	if st.dry {
		// nested loop inside a dry run: conservatively havoc everything once and go through the body
		fr.loopSnap[h] = &loopSnap{}
		x.havocAll(st)
		x.havocPhis(fr, st, h)
		return
	}
	// 2. discover write set by dry runs of the body (to a fixpoint on the set of components)
	ws := x.discoverWrites(fr, st, h)
	// 3. havoc: whole component, or only the loop-invariant references written
	for _, k := range sortedKeys(ws.comps) {
		r := ws.comps[k]
		if r.all {
			x.havocComp(st, k)
			continue
		}
		for _, ref := range r.refs {
			x.havocAt(st, k, ref)
		}
	}
	for _, k := range sortedKeys(ws.ghost) {
		if strings.HasPrefix(k, "call:") {
			delete(st.calls, strings.TrimPrefix(k, "call:"))
		} else if strings.HasPrefix(k, "ncalls:") || strings.HasPrefix(k, "nok:") {
			st.ghost[k] = x.freshCounter(st)
		} else if cur, ok := st.ghost[k]; ok {
			st.ghost[k] = x.c.Fresh("ghost", cur.S)
		} else if g := x.ghostInit(k); g != nil {
			st.ghost[k] = x.c.Fresh("ghost", g.S)
		} else {
			st.ghost[k] = x.c.Fresh("ghost", idxSort)
		}
	}
	x.bumpAlloc(st)
	x.havocPhis(fr, st, h)
	// automatic invariants for induction variables
	x.autoInvariants(fr, st, h)
	// 4. assume invariants
	if lc != nil {
		for _, inv := range lc.Invariants {
			v := x.evalSpec(&specScope{x: x, fr: fr, st: st, old: fr.entry}, inv.Expr)
			st.assume(v.L[0])
		}
	}
	snap := &loopSnap{st: st.clone()}
	if lc != nil && len(lc.Steps) > 0 {
		snap.env = make(map[ssa.Value]Value, len(fr.env))
		for k, v := range fr.env {
			snap.env[k] = v
		}
		snap.names = make(map[string]ssa.Value, len(fr.names))
		for k, v := range fr.names {
			snap.names[k] = v
		}
	}
	if lc != nil && lc.Decreases != nil {
		v := x.evalSpec(&specScope{x: x, fr: fr, st: st, old: fr.entry}, lc.Decreases.Expr)
		snap.measure = []*Term{x.toInt64(v)}
	}
	fr.loopSnap[h] = snap
}

// freshCounter: an unknown value of a ghost call counter. Counters count calls made during one execution of
// the function: they are non-negative and far below 2^62 (no execution makes that many calls).
func (x *Exec) freshCounter(st *State) *Term {
	g := x.c.Fresh("ghost_ncalls", idxSort)
	st.assume(And(BVCmp("bvsge", g, BVLit64(0, 64)), BVCmp("bvsle", g, BVLit64(1<<62, 64))))
	return g
}

func (x *Exec) toInt64(v Value) *Term {
	t := v.L[0]
	if t.S.K != 'v' {
		unsup("decreases measure must be an integer")
	}
	if t.S.W < 64 {
		if isSigned(v.T) {
			return SignExt(t, 64)
		}
		return ZeroExt(t, 64)
	}
	return t
}

func (x *Exec) havocPhis(fr *Frame, st *State, h *ssa.BasicBlock) {
	for _, ins := range h.Instrs {
		p, ok := ins.(*ssa.Phi)
		if !ok {
			break
		}
		old := fr.env[p]
		nv := x.freshValue(st, "phi_"+p.Comment, p.Type())
		nv.Fn = nil
		if old.Loc != nil {
			// pointer phis with interior locations cannot be havocked soundly unless all edges agree
			unsup("loop-carried interior pointer %s in %s", p.Name(), fr.fn.Name())
		}
		if old.Fn != nil {
			nv.Fn = old.Fn // function values are assumed loop invariant (checked syntactically: same edges)
			for _, e := range p.Edges {
				if e != p && !sameFuncVal(x.tryVal(fr, e), old) {
					unsup("loop-carried function value %s", p.Name())
				}
			}
			nv.L = old.L
		}
		fr.env[p] = nv
	}
}

func (x *Exec) tryVal(fr *Frame, v ssa.Value) (out Value) {
	defer func() {
		if r := recover(); r != nil {
			out = Value{}
		}
	}()
	return x.val(fr, v)
}

func sameFuncVal(a, b Value) bool {
	return a.Fn != nil && b.Fn != nil && a.Fn.Fn == b.Fn.Fn
}

// autoInvariants: for header phis of the shape phi(init, phi+c) with c>0 constant on every back edge,
// and a loop whose only exits compare the variable, assume nothing; we only add *checked* invariants.
// The checked candidate: phi >=s init (signed) or phi >=u init (unsigned), registered as obligation on the back edge.
func (x *Exec) autoInvariants(fr *Frame, st *State, h *ssa.BasicBlock) {
	li := x.loops(fr.fn)
	for _, ins := range h.Instrs {
		p, ok := ins.(*ssa.Phi)
		if !ok {
			break
		}
		if !isInteger(p.Type()) {
			continue
		}
		var init ssa.Value
		okShape := true
		dir := 0
		for i, e := range p.Edges {
			if li.body[h][h.Preds[i]] {
				bo, ok := e.(*ssa.BinOp)
				if !ok || (bo.Op != token.ADD && bo.Op != token.SUB) || bo.X != p {
					okShape = false
					break
				}
				c, ok := bo.Y.(*ssa.Const)
				if !ok || c.Value == nil {
					okShape = false
					break
				}
				cv, _ := constant.Int64Val(constant.ToInt(c.Value))
				if cv <= 0 {
					okShape = false
					break
				}
				d := 1
				if bo.Op == token.SUB {
					d = -1
				}
				if dir != 0 && dir != d {
					okShape = false
					break
				}
				dir = d
			} else {
				if init != nil && init != e {
					okShape = false
					break
				}
				init = e
			}
		}
		if !okShape || init == nil || dir == 0 {
			continue
		}
		iv, ok2 := fr.env[init]
		if !ok2 {
			if c, isc := init.(*ssa.Const); isc {
				iv = x.constValue(c)
			} else {
				continue
			}
		}
		cur := fr.env[p].L[0]
		var cand *Term
		sgn := isSigned(p.Type())
		switch {
		case dir > 0 && sgn:
			cand = BVCmp("bvsge", cur, iv.L[0])
		case dir > 0 && !sgn:
			cand = BVCmp("bvuge", cur, iv.L[0])
		case dir < 0 && sgn:
			cand = BVCmp("bvsle", cur, iv.L[0])
		default:
			cand = BVCmp("bvule", cur, iv.L[0])
		}
		st.assume(cand)
		x.autoInv[autoKey{fr.fn, p}] = autoInvRec{init: iv.L[0], dir: dir, sgn: sgn}
	}
}

type autoKey struct {
	fn *ssa.Function
	p  *ssa.Phi
}
type autoInvRec struct {
	init *Term
	dir  int
	sgn  bool
}

func (x *Exec) loopBack(fr *Frame, st *State, h *ssa.BasicBlock, ord int) {
	if st.dry {
		return
	}
	x.Stats.Paths++
	lc := x.loopContract(fr, ord)
	label := fmt.Sprintf("loop%d", ord)
	pos := h.Instrs[0].Pos()
	// auto invariants preserved?
	for _, ins := range h.Instrs {
		p, ok := ins.(*ssa.Phi)
		if !ok {
			break
		}
		if rec, ok := x.autoInv[autoKey{fr.fn, p}]; ok {
			cur := fr.env[p].L[0]
			var cand *Term
			switch {
			case rec.dir > 0 && rec.sgn:
				cand = BVCmp("bvsge", cur, rec.init)
			case rec.dir > 0 && !rec.sgn:
				cand = BVCmp("bvuge", cur, rec.init)
			case rec.dir < 0 && rec.sgn:
				cand = BVCmp("bvsle", cur, rec.init)
			default:
				cand = BVCmp("bvule", cur, rec.init)
			}
			name := p.Comment
			if name == "" {
				name = p.Name()
			}
			x.oblige(fr, st, "inv.auto", label+":"+name+"_monotone", pos, cand)
		}
	}
	if lc == nil {
		return
	}
	for _, inv := range lc.Invariants {
		v := x.evalSpec(&specScope{x: x, fr: fr, st: st, old: fr.entry}, inv.Expr)
		x.oblige(fr, st, "inv.pres", label+":"+inv.Label, pos, v.L[0])
	}
	if snap := fr.loopSnap[h]; snap != nil && snap.env != nil {
		// step clauses: what one iteration does, relating the state at its head (prev) to the state now
		pfr := *fr
		pfr.env, pfr.names = snap.env, snap.names
		for _, sc := range lc.Steps {
			v := x.evalSpec(&specScope{x: x, fr: fr, st: st, old: fr.entry, prevFr: &pfr, prevSt: snap.st}, sc.Expr)
			x.oblige(fr, st, "step", label+":"+sc.Label, pos, v.L[0])
		}
	}
	if lc.Decreases != nil {
		snap := fr.loopSnap[h]
		v := x.evalSpec(&specScope{x: x, fr: fr, st: st, old: fr.entry}, lc.Decreases.Expr)
		m := x.toInt64(v)
		if snap != nil && len(snap.measure) == 1 {
			x.oblige(fr, st, "dec", label+":"+lc.Decreases.Label, pos,
				And(BVCmp("bvsge", snap.measure[0], BVLit64(0, 64)), BVCmp("bvslt", m, snap.measure[0])))
		}
	}
}

// havocHeap forgets every heap component (a callee with `modifies *`); ghost state is handled by the caller.
func (x *Exec) havocHeap(st *State) {
	for _, k := range sortedHeapKeys(st.heap) {
		x.havocComp(st, k)
	}
}

func (x *Exec) havocAll(st *State) {
	for _, k := range sortedHeapKeys(st.heap) {
		x.havocComp(st, k)
	}
	for k := range st.ghost {
		st.ghost[k] = x.c.Fresh("ghost_"+k, st.ghost[k].S)
	}
}

// discoverWrites runs the loop body in dry mode until the set of written heap components is stable.
// Path exploration is syntactic (no pruning), so the component set is a sound superset; the references
// recorded in the final run were computed with every possibly-written component havocked, hence
// references built only from symbols older than the run are loop invariant.
func (x *Exec) discoverWrites(fr *Frame, st *State, h *ssa.BasicBlock) *writeSet {
	W := map[string]bool{}
	savedPaths := x.paths
	defer func() { x.paths = savedPaths }()
	for iter := 0; ; iter++ {
		dst := st.clone()
		dst.dry = true
		dfr := fr.clone()
		dfr.dryBody = x.loops(fr.fn).body[h]
		dfr.loopSnap[h] = &loopSnap{}
		dst.written = nil
		for _, k := range sortedKeys(W) {
			x.havocComp(dst, k)
		}
		for k := range dst.ghost {
			dst.ghost[k] = x.c.Fresh("ghost_"+k, dst.ghost[k].S)
		}
		ws := &writeSet{comps: map[string]*wrec{}, start: x.c.fresh}
		x.havocPhis(dfr, dst, h)
		ws.start = x.c.fresh
		dst.written = ws
		x.run(dfr, dst, h, nil, 0)
		grew := false
		for k := range ws.comps {
			if !W[k] {
				W[k] = true
				grew = true
			}
		}
		if !grew || iter > 6 {
			if grew {
				for _, r := range ws.comps {
					r.all = true
				}
			}
			return ws
		}
	}
}

// bumpAlloc forgets the exact allocation counter (earlier iterations / callees may have allocated).
func (x *Exec) bumpAlloc(st *State) {
	a := x.c.Fresh("alloc", SInt)
	st.assume(IntCmp(">=", a, st.alloc))
	st.alloc = a
}

// havocAt replaces the contents of component k at reference ref by a fresh value.
func (x *Exec) havocAt(st *State, k string, ref *Term) {
	cur, ok := st.heap[k]
	if !ok {
		cur = x.initialHeapSym(k)
		if cur == nil {
			return
		}
	}
	fresh := x.c.Fresh("Hl_"+k, *cur.S.Elem)
	t := Store(cur, ref, fresh)
	v := x.c.Fresh("H_"+k, t.S)
	v.Def = t
	st.assume(Eq(v, t))
	x.defs[v.Name] = t
	st.heap[k] = v
	x.recordWrite(st, k, t)
	x.assumeGlobFacts(st, k, v)
}
