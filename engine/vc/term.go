package vc

import (
	"fmt"
	"math/big"
	"sort"
	"strings"
)

// Sort of an SMT term.
type Sort struct {
	K    byte // 'b' bool, 'v' bitvec, 'i' Int, 's' Str (uninterpreted), 'a' array
	W    int  // bit width for 'v'
	Idx  *Sort
	Elem *Sort
}

var (
	SBool = Sort{K: 'b'}
	SInt  = Sort{K: 'i'}
	SStr  = Sort{K: 's'}
)

func SBV(w int) Sort           { return Sort{K: 'v', W: w} }
func SArr(idx, elem Sort) Sort { i, e := idx, elem; return Sort{K: 'a', Idx: &i, Elem: &e} }

func (s Sort) String() string {
	switch s.K {
	case 'b':
		return "Bool"
	case 'i':
		return "Int"
	case 's':
		return "Str"
	case 'v':
		return fmt.Sprintf("(_ BitVec %d)", s.W)
	case 'a':
		return "(Array " + s.Idx.String() + " " + s.Elem.String() + ")"
	}
	return "?"
}
func (s Sort) Eq(o Sort) bool { return s.String() == o.String() }

// Term is an SMT term DAG node.
type Term struct {
	Op   string // "const" (named constant / literal text in Name), or SMT operator
	Name string // for const/var: the SMT text
	Args []*Term
	S    Sort
	// literal values
	IsLit bool
	Val   *big.Int // for bv/int literal; for bool: 0/1
	Def   *Term    // for named constants introduced by define(): the defining term
	Q     string   // for quantifiers: forall / exists
	QVars []*Term
	QPats []*Term
	str   string   // cached print
}

func (t *Term) String() string {
	if t.str != "" {
		return t.str
	}
	if t.Op == "const" {
		t.str = t.Name
		return t.str
	}
	var sb strings.Builder
	sb.WriteString("(")
	sb.WriteString(t.Op)
	for _, a := range t.Args {
		sb.WriteString(" ")
		sb.WriteString(a.String())
	}
	sb.WriteString(")")
	t.str = sb.String()
	return t.str
}

func Var(name string, s Sort) *Term { return &Term{Op: "const", Name: name, S: s} }

func BoolLit(b bool) *Term {
	if b {
		return &Term{Op: "const", Name: "true", S: SBool, IsLit: true, Val: big.NewInt(1)}
	}
	return &Term{Op: "const", Name: "false", S: SBool, IsLit: true, Val: big.NewInt(0)}
}

var True, False = BoolLit(true), BoolLit(false)

func modW(v *big.Int, w int) *big.Int {
	m := new(big.Int).Lsh(big.NewInt(1), uint(w))
	r := new(big.Int).Mod(v, m)
	return r
}

func BVLit(v *big.Int, w int) *Term {
	r := modW(v, w)
	return &Term{Op: "const", Name: fmt.Sprintf("(_ bv%s %d)", r.String(), w), S: SBV(w), IsLit: true, Val: r}
}
func BVLit64(v int64, w int) *Term { return BVLit(big.NewInt(v), w) }

func IntLit(v int64) *Term {
	n := fmt.Sprintf("%d", v)
	if v < 0 {
		n = fmt.Sprintf("(- %d)", -v)
	}
	return &Term{Op: "const", Name: n, S: SInt, IsLit: true, Val: big.NewInt(v)}
}

func (t *Term) IsTrue() bool  { return t.IsLit && t.S.K == 'b' && t.Val.Sign() != 0 }
func (t *Term) IsFalse() bool { return t.IsLit && t.S.K == 'b' && t.Val.Sign() == 0 }

func app(op string, s Sort, args ...*Term) *Term { return &Term{Op: op, Args: args, S: s} }

func sameTerm(a, b *Term) bool { return a == b || a.String() == b.String() }

func Not(a *Term) *Term {
	if a.IsLit {
		return BoolLit(a.Val.Sign() == 0)
	}
	if a.Op == "not" {
		return a.Args[0]
	}
	return app("not", SBool, a)
}

func And(as ...*Term) *Term {
	var out []*Term
	for _, a := range as {
		if a.IsTrue() {
			continue
		}
		if a.IsFalse() {
			return False
		}
		if a.Op == "and" {
			out = append(out, a.Args...)
		} else {
			out = append(out, a)
		}
	}
	if len(out) == 0 {
		return True
	}
	if len(out) == 1 {
		return out[0]
	}
	return app("and", SBool, out...)
}

func Or(as ...*Term) *Term {
	var out []*Term
	for _, a := range as {
		if a.IsFalse() {
			continue
		}
		if a.IsTrue() {
			return True
		}
		if a.Op == "or" {
			out = append(out, a.Args...)
		} else {
			out = append(out, a)
		}
	}
	if len(out) == 0 {
		return False
	}
	if len(out) == 1 {
		return out[0]
	}
	return app("or", SBool, out...)
}

func Implies(a, b *Term) *Term {
	if a.IsTrue() {
		return b
	}
	if a.IsFalse() || b.IsTrue() {
		return True
	}
	return app("=>", SBool, a, b)
}

func Eq(a, b *Term) *Term {
	if !a.S.Eq(b.S) {
		panic(fmt.Sprintf("Eq sort mismatch: %s : %s  vs  %s : %s", a, a.S, b, b.S))
	}
	if a.IsLit && b.IsLit {
		return BoolLit(a.Val.Cmp(b.Val) == 0)
	}
	if sameTerm(a, b) {
		return True
	}
	if a.S.K == 'b' {
		if b.IsLit {
			if b.IsTrue() {
				return a
			}
			return Not(a)
		}
		if a.IsLit {
			if a.IsTrue() {
				return b
			}
			return Not(b)
		}
	}
	return app("=", SBool, a, b)
}

func Ite(c, a, b *Term) *Term {
	if c.IsTrue() {
		return a
	}
	if c.IsFalse() {
		return b
	}
	if sameTerm(a, b) {
		return a
	}
	if a.S.K == 'b' && a.IsLit && b.IsLit {
		if a.IsTrue() {
			return c
		}
		return Not(c)
	}
	return app("ite", a.S, c, a, b)
}

func toSigned(v *big.Int, w int) *big.Int {
	half := new(big.Int).Lsh(big.NewInt(1), uint(w-1))
	if v.Cmp(half) >= 0 {
		return new(big.Int).Sub(v, new(big.Int).Lsh(big.NewInt(1), uint(w)))
	}
	return new(big.Int).Set(v)
}

// BVBin builds a binary bit-vector operation with constant folding.
func BVBin(op string, a, b *Term) *Term {
	w := a.S.W
	if a.S.K != 'v' || b.S.K != 'v' || a.S.W != b.S.W {
		panic(fmt.Sprintf("BVBin %s sort mismatch: %s:%s %s:%s", op, a, a.S, b, b.S))
	}
	if a.IsLit && b.IsLit {
		x, y := a.Val, b.Val
		r := new(big.Int)
		ok := true
		switch op {
		case "bvadd":
			r.Add(x, y)
		case "bvsub":
			r.Sub(x, y)
		case "bvmul":
			r.Mul(x, y)
		case "bvand":
			r.And(x, y)
		case "bvor":
			r.Or(x, y)
		case "bvxor":
			r.Xor(x, y)
		case "bvshl":
			if y.Cmp(big.NewInt(int64(w))) >= 0 {
				r.SetInt64(0)
			} else {
				r.Lsh(x, uint(y.Int64()))
			}
		case "bvlshr":
			if y.Cmp(big.NewInt(int64(w))) >= 0 {
				r.SetInt64(0)
			} else {
				r.Rsh(x, uint(y.Int64()))
			}
		case "bvudiv":
			if y.Sign() == 0 {
				ok = false
			} else {
				r.Div(x, y)
			}
		case "bvurem":
			if y.Sign() == 0 {
				ok = false
			} else {
				r.Mod(x, y)
			}
		default:
			ok = false
		}
		if ok {
			return BVLit(r, w)
		}
	}
	// identities
	switch op {
	case "bvadd":
		if a.IsLit && a.Val.Sign() == 0 {
			return b
		}
		if b.IsLit && b.Val.Sign() == 0 {
			return a
		}
	case "bvsub", "bvshl", "bvlshr", "bvashr", "bvor", "bvxor":
		if b.IsLit && b.Val.Sign() == 0 {
			return a
		}
	case "bvmul":
		if b.IsLit && b.Val.Cmp(big.NewInt(1)) == 0 {
			return a
		}
		if a.IsLit && a.Val.Cmp(big.NewInt(1)) == 0 {
			return b
		}
	}
	return app(op, a.S, a, b)
}

// BVCmp builds a comparison with folding.
func BVCmp(op string, a, b *Term) *Term {
	if a.S.K != 'v' || b.S.K != 'v' || a.S.W != b.S.W {
		panic(fmt.Sprintf("BVCmp %s sort mismatch: %s:%s %s:%s", op, a, a.S, b, b.S))
	}
	if a.IsLit && b.IsLit {
		x, y := a.Val, b.Val
		if strings.HasPrefix(op, "bvs") {
			x, y = toSigned(x, a.S.W), toSigned(y, a.S.W)
		}
		c := x.Cmp(y)
		switch op[3:] {
		case "lt":
			return BoolLit(c < 0)
		case "le":
			return BoolLit(c <= 0)
		case "gt":
			return BoolLit(c > 0)
		case "ge":
			return BoolLit(c >= 0)
		}
	}
	return app(op, SBool, a, b)
}

func IntBin(op string, a, b *Term) *Term {
	if a.IsLit && b.IsLit {
		switch op {
		case "+":
			return IntLit(a.Val.Int64() + b.Val.Int64())
		case "-":
			return IntLit(a.Val.Int64() - b.Val.Int64())
		case "*":
			return IntLit(a.Val.Int64() * b.Val.Int64())
		}
	}
	return app(op, SInt, a, b)
}
func IntCmp(op string, a, b *Term) *Term {
	if a.IsLit && b.IsLit {
		c := a.Val.Cmp(b.Val)
		switch op {
		case "<":
			return BoolLit(c < 0)
		case "<=":
			return BoolLit(c <= 0)
		case ">":
			return BoolLit(c > 0)
		case ">=":
			return BoolLit(c >= 0)
		}
	}
	return app(op, SBool, a, b)
}

func Extract(hi, lo int, a *Term) *Term {
	if a.IsLit {
		v := new(big.Int).Rsh(a.Val, uint(lo))
		return BVLit(v, hi-lo+1)
	}
	if lo == 0 && hi == a.S.W-1 {
		return a
	}
	return &Term{Op: fmt.Sprintf("(_ extract %d %d)", hi, lo), Args: []*Term{a}, S: SBV(hi - lo + 1)}
}

func ZeroExt(a *Term, to int) *Term {
	if to == a.S.W {
		return a
	}
	if a.IsLit {
		return BVLit(a.Val, to)
	}
	return &Term{Op: fmt.Sprintf("(_ zero_extend %d)", to-a.S.W), Args: []*Term{a}, S: SBV(to)}
}
func SignExt(a *Term, to int) *Term {
	if to == a.S.W {
		return a
	}
	if a.IsLit {
		return BVLit(toSigned(a.Val, a.S.W), to)
	}
	return &Term{Op: fmt.Sprintf("(_ sign_extend %d)", to-a.S.W), Args: []*Term{a}, S: SBV(to)}
}

func Select(arr, idx *Term) *Term {
	if arr.S.K != 'a' {
		panic("Select on non-array " + arr.String() + " : " + arr.S.String())
	}
	if !arr.S.Idx.Eq(idx.S) {
		panic(fmt.Sprintf("Select index sort mismatch %s[%s:%s]", arr.S, idx, idx.S))
	}
	// read-over-write simplification, looking through named definitions
	cur := arr
	named := arr // last named (small) representative equal to cur
	for steps := 0; steps < 200; steps++ {
		if cur.Op == "const" && cur.Def != nil {
			named = cur
			cur = cur.Def
			continue
		}
		if cur.Op == "store" {
			j := cur.Args[1]
			if sameTerm(j, idx) {
				return cur.Args[2]
			}
			if distinctTerms(j, idx) {
				cur = cur.Args[0]
				named = cur
				continue
			}
		}
		break
	}
	if cur.Op == "constarr" {
		return cur.Args[0]
	}
	if cur.Op == "const" || cur.Op == "select" {
		named = cur
	}
	return app("select", *arr.S.Elem, named, idx)
}

// distinctTerms reports syntactically evident disequality.
func distinctTerms(a, b *Term) bool {
	if a.IsLit && b.IsLit {
		return a.Val.Cmp(b.Val) != 0
	}
	if a.S.K == 'i' && a.Op == "const" && b.Op == "const" {
		ar, br := strings.HasPrefix(a.Name, "ref_"), strings.HasPrefix(b.Name, "ref_")
		if (ar || br) && a.Name != b.Name {
			// fresh allocations are distinct from each other, from literals (globals, nil) and from
			// anything that existed before (parameters, loaded refs are <= alloc at load time) --
			// the latter only holds for symbols created before the allocation; we restrict to
			// literals, other fresh refs and parameters.
			if ar && br {
				return true
			}
			o := b
			if br {
				o = a
			}
			if o.IsLit || strings.HasPrefix(o.Name, "p_") || strings.HasPrefix(o.Name, "fv_") {
				return true
			}
		}
	}
	// (bvadd x c1) vs (bvadd x c2)
	if a.Op == "bvadd" && b.Op == "bvadd" && len(a.Args) == 2 && len(b.Args) == 2 && sameTerm(a.Args[0], b.Args[0]) && a.Args[1].IsLit && b.Args[1].IsLit {
		return a.Args[1].Val.Cmp(b.Args[1].Val) != 0
	}
	if a.Op == "bvadd" && len(a.Args) == 2 && sameTerm(a.Args[0], b) && a.Args[1].IsLit && a.Args[1].Val.Sign() != 0 {
		return true
	}
	if b.Op == "bvadd" && len(b.Args) == 2 && sameTerm(b.Args[0], a) && b.Args[1].IsLit && b.Args[1].Val.Sign() != 0 {
		return true
	}
	return false
}

func Store(arr, idx, v *Term) *Term {
	if arr.S.K != 'a' || !arr.S.Idx.Eq(idx.S) || !arr.S.Elem.Eq(v.S) {
		panic(fmt.Sprintf("Store sort mismatch %s : %s [%s:%s] := %s:%s", arr, arr.S, idx, idx.S, v, v.S))
	}
	return app("store", arr.S, arr, idx, v)
}

// ConstArr is ((as const S) v); printed specially.
func ConstArr(s Sort, v *Term) *Term {
	t := &Term{Op: "constarr", Args: []*Term{v}, S: s}
	t.str = "((as const " + s.String() + ") " + v.String() + ")"
	return t
}

// Apply builds an application of a declared uninterpreted function.
func Apply(fn string, s Sort, args ...*Term) *Term {
	if len(args) == 0 {
		return Var(fn, s)
	}
	return app(fn, s, args...)
}

// Quant builds a quantifier; vars are const terms.
func Quant(q string, vars []*Term, body *Term, pats ...*Term) *Term {
	if body.IsLit {
		return body
	}
	var sb strings.Builder
	sb.WriteString("(" + q + " (")
	for _, v := range vars {
		sb.WriteString("(" + v.Name + " " + v.S.String() + ")")
	}
	sb.WriteString(") ")
	if len(pats) > 0 {
		sb.WriteString("(! " + body.String() + " :pattern (")
		for i, p := range pats {
			if i > 0 {
				sb.WriteString(" ")
			}
			sb.WriteString(p.String())
		}
		sb.WriteString("))")
	} else {
		sb.WriteString(body.String())
	}
	sb.WriteString(")")
	t := &Term{Op: "quant", Args: []*Term{body}, S: SBool, Q: q, QVars: vars, QPats: pats}
	t.str = sb.String()
	return t
}

// Subst replaces constants by terms (by name) throughout t, rebuilding with the simplifying constructors.
func Subst(t *Term, m map[string]*Term) *Term {
	cache := map[*Term]*Term{}
	var rec func(x *Term) *Term
	rec = func(x *Term) *Term {
		if r, ok := cache[x]; ok {
			return r
		}
		var r *Term
		switch {
		case x.Op == "const":
			if n, ok := m[x.Name]; ok && !x.IsLit {
				r = n
			} else {
				r = x
			}
		case x.Op == "quant":
			// bound variables shadow
			m2 := m
			for _, v := range x.QVars {
				if _, ok := m[v.Name]; ok {
					m2 = map[string]*Term{}
					for k, vv := range m {
						m2[k] = vv
					}
					for _, v2 := range x.QVars {
						delete(m2, v2.Name)
					}
					break
				}
			}
			var pats []*Term
			for _, p := range x.QPats {
				pats = append(pats, Subst(p, m2))
			}
			r = Quant(x.Q, x.QVars, Subst(x.Args[0], m2), pats...)
		default:
			changed := false
			args := make([]*Term, len(x.Args))
			for i, a := range x.Args {
				args[i] = rec(a)
				if args[i] != a {
					changed = true
				}
			}
			if !changed {
				r = x
			} else {
				r = rebuild(x, args)
			}
		}
		cache[x] = r
		return r
	}
	return rec(t)
}

func rebuild(x *Term, args []*Term) *Term {
	switch x.Op {
	case "not":
		return Not(args[0])
	case "and":
		return And(args...)
	case "or":
		return Or(args...)
	case "=>":
		return Implies(args[0], args[1])
	case "=":
		return Eq(args[0], args[1])
	case "ite":
		return Ite(args[0], args[1], args[2])
	case "select":
		return Select(args[0], args[1])
	case "store":
		return Store(args[0], args[1], args[2])
	case "constarr":
		return ConstArr(x.S, args[0])
	case "bvult", "bvule", "bvugt", "bvuge", "bvslt", "bvsle", "bvsgt", "bvsge":
		return BVCmp(x.Op, args[0], args[1])
	case "bvadd", "bvsub", "bvmul", "bvand", "bvor", "bvxor", "bvshl", "bvlshr", "bvashr", "bvudiv", "bvurem", "bvsdiv", "bvsrem":
		return BVBin(x.Op, args[0], args[1])
	case "<", "<=", ">", ">=":
		return IntCmp(x.Op, args[0], args[1])
	}
	return &Term{Op: x.Op, Args: args, S: x.S}
}

// FreeConsts collects the names of const terms occurring in t (bound ones included; harmless).
func (t *Term) FreeConsts(out map[string]bool) {
	seen := map[*Term]bool{}
	var rec func(*Term)
	rec = func(x *Term) {
		if seen[x] {
			return
		}
		seen[x] = true
		if x.Op == "const" {
			if !x.IsLit {
				out[x.Name] = true
			}
		} else {
			out[x.Op] = true
		}
		for _, a := range x.Args {
			rec(a)
		}
	}
	rec(t)
}

func sortedKeys[V any](m map[string]V) []string {
	ks := make([]string, 0, len(m))
	for k := range m {
		ks = append(ks, k)
	}
	sort.Strings(ks)
	return ks
}
