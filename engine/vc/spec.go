package vc

import (
	"go/ast"
	"fmt"
	"go/constant"
	"go/types"
	"math/big"
	"strings"

	"golang.org/x/tools/go/ssa"
)

type specScope struct {
	x       *Exec
	fr      *Frame
	st      *State
	old     *State
	results map[string]Value
	bound   map[string]Value
	depth   int
	// assumeMode: the expression is being assumed (callee contract at a call site), not proved
	assumeMode bool
	// inOld: evaluating inside old(...): parameter names denote the values passed in
	inOld bool
	// prevFr / prevSt: in a step clause, the frame and state at the head of the iteration (for prev(...))
	prevFr *Frame
	prevSt *State
}

func (s *specScope) with(name string, v Value) *specScope {
	n := *s
	n.bound = map[string]Value{}
	for k, vv := range s.bound {
		n.bound[k] = vv
	}
	n.bound[name] = v
	return &n
}

var tBool = types.Typ[types.Bool]
var tInt = types.Typ[types.Int]

func boolV(t *Term) Value { return Value{T: tBool, L: []*Term{t}} }

type untypedInt struct{ v *big.Int }

func (x *Exec) basicType(name string) types.Type {
	switch name {
	case "int":
		return types.Typ[types.Int]
	case "int8":
		return types.Typ[types.Int8]
	case "int16":
		return types.Typ[types.Int16]
	case "int32":
		return types.Typ[types.Int32]
	case "int64":
		return types.Typ[types.Int64]
	case "uint":
		return types.Typ[types.Uint]
	case "uint8", "byte":
		return types.Typ[types.Uint8]
	case "uint16":
		return types.Typ[types.Uint16]
	case "uint32":
		return types.Typ[types.Uint32]
	case "uint64":
		return types.Typ[types.Uint64]
	case "uintptr":
		return types.Typ[types.Uintptr]
	case "bool":
		return types.Typ[types.Bool]
	case "string":
		return types.Typ[types.String]
	}
	return nil
}

func (x *Exec) specType(sc *specScope, name string) types.Type {
	if strings.HasPrefix(name, "[]") {
		et := x.specType(sc, name[2:])
		if et == nil {
			return nil
		}
		return types.NewSlice(et)
	}
	if t := x.basicType(name); t != nil {
		return t
	}
	// type parameters of the (instantiated) function under verification
	if sc.fr != nil && !strings.ContainsAny(name, ".[*") {
		fn := sc.fr.fn
		for fn != nil {
			if tps, tas := fn.TypeParams(), fn.TypeArgs(); tps.Len() > 0 && len(tas) == tps.Len() {
				for i := 0; i < tps.Len(); i++ {
					if tps.At(i).Obj().Name() == name {
						return tas[i]
					}
				}
			}
			fn = fn.Parent()
		}
	}
	// instantiated generic type: Name[Arg, Arg]
	if i := strings.Index(name, "["); i > 0 && strings.HasSuffix(name, "]") && !strings.HasPrefix(name, "*") {
		base := x.specType(sc, name[:i])
		if base == nil {
			return nil
		}
		var targs []types.Type
		for _, a := range splitTop(name[i+1:len(name)-1], ',') {
			ta := x.specType(sc, strings.TrimSpace(a))
			if ta == nil {
				return nil
			}
			targs = append(targs, ta)
		}
		inst, err := types.Instantiate(nil, base, targs, false)
		if err != nil {
			return nil
		}
		return inst
	}
	if strings.HasPrefix(name, "*") {
		et := x.specType(sc, name[1:])
		if et == nil {
			return nil
		}
		return types.NewPointer(et)
	}
	if !strings.Contains(name, ".") && sc.fr != nil && sc.fr.fn != nil {
		f := sc.fr.fn
		for f.Parent() != nil {
			f = f.Parent()
		}
		pkg := f.Pkg
		if pkg == nil && f.Origin() != nil {
			pkg = f.Origin().Pkg // instance of a generic function: the package of the generic
		}
		if pkg != nil {
			if o := pkg.Pkg.Scope().Lookup(name); o != nil {
				if _, ok := o.(*types.TypeName); ok {
					return o.Type()
				}
			}
		}
	}
	return x.lookupType(name)
}

// specLoad loads a location named in a specification. Slice values read from the heap satisfy the Go
// representation invariant (0 <= len <= cap, ...) in every state; program loads assume it at the load,
// and a load made only by a specification states it as a global axiom about those (ground) heap terms.
func (x *Exec) specLoad(sc *specScope, loc *Loc) Value {
	v := x.load(sc.st, loc)
	ls := x.c.leaves(v.T)
	for i, l := range ls {
		if l.Dims > 0 || l.Kind != 'o' || i == 0 || i+2 >= len(v.L) {
			continue
		}
		base, off, ln, cp := v.L[i-1], v.L[i], v.L[i+1], v.L[i+2]
		if !isGroundTerm(base) || !isGroundTerm(off) || !isGroundTerm(ln) || !isGroundTerm(cp) {
			continue
		}
		key := "specwf:" + ln.String() + "|" + cp.String()
		if len(key) > 600 || x.axiomSeen[key] {
			continue
		}
		x.axiomSeen[key] = true
		max := BVLit64(1<<40, 64)
		x.extraAxioms = append(x.extraAxioms, BVCmp("bvule", ln, cp), BVCmp("bvule", cp, max), BVCmp("bvule", off, max),
			IntCmp(">=", base, IntLit(0)), Implies(Eq(base, IntLit(0)), Eq(cp, BVLit64(0, 64))))
	}
	return v
}

func (x *Exec) evalSpec(sc *specScope, e Expr) Value {
	x.inSpec++
	defer func() { x.inSpec-- }()
	v := x.evalSpec0(sc, e, nil)
	return v
}

// evalSpec0 evaluates e; hint is the expected type for untyped literals.
func (x *Exec) evalSpec0(sc *specScope, e Expr, hint types.Type) Value {
	switch n := e.(type) {
	case *ELit:
		switch n.Kind {
		case "bool":
			return boolV(BoolLit(n.Text == "true"))
		case "nil":
			if hint != nil {
				return x.zero(hint)
			}
			return Value{T: types.Typ[types.UntypedNil], L: []*Term{IntLit(0)}}
		case "string":
			return scalar(types.Typ[types.String], x.strLit(n.Text))
		case "int":
			v, ok := new(big.Int).SetString(n.Text, 0)
			if !ok {
				unsup("spec: bad integer literal %s", n.Text)
			}
			T := hint
			if T == nil || !isInteger(T) {
				T = tInt
			}
			w, _, _ := basicWidth(T.Underlying().(*types.Basic))
			return scalar(T, BVLit(v, w))
		}
	case *EIdent:
		return x.specIdent(sc, n.Name, hint)
	case *EUn:
		switch n.Op {
		case "!":
			return boolV(Not(x.evalSpec0(sc, n.X, nil).L[0]))
		case "-":
			v := x.evalSpec0(sc, n.X, hint)
			return scalar(v.T, BVBin("bvsub", BVLit64(0, v.L[0].S.W), v.L[0]))
		case "^":
			v := x.evalSpec0(sc, n.X, hint)
			return scalar(v.T, &Term{Op: "bvnot", Args: []*Term{v.L[0]}, S: v.L[0].S})
		case "*":
			v := x.evalSpec0(sc, n.X, nil)
			return x.load(sc.st, x.ptrLoc(v))
		}
	case *EBin:
		return x.specBin(sc, n, hint)
	case *ESel:
		// package-qualified names?
		if id, ok := n.X.(*EIdent); ok {
			if v, ok := x.specPkgMember(sc, id.Name, n.Name); ok {
				return v
			}
		}
		base := x.evalSpec0(sc, n.X, nil)
		return x.specField(sc, base, n.Name)
	case *EIndex:
		base := x.evalSpec0(sc, n.X, nil)
		return x.specIndex(sc, base, n.I)
	case *ESlice:
		base := x.evalSpec0(sc, n.X, nil)
		p := sl(base)
		lo, hi := BVLit64(0, 64), p.ln
		if n.Lo != nil {
			lo = x.idx64(x.evalSpec0(sc, n.Lo, tInt))
		}
		if n.Hi != nil {
			hi = x.idx64(x.evalSpec0(sc, n.Hi, tInt))
		}
		return Value{T: base.T, L: []*Term{p.base, BVBin("bvadd", p.off, lo), BVBin("bvsub", hi, lo), BVBin("bvsub", p.cp, lo)}}
	case *ECall:
		return x.specCall(sc, n, hint)
	case *EQuant:
		nsc := sc
		var vars []*Term
		for _, qv := range n.Vars {
			T := x.specType(sc, qv.Type)
			if T == nil {
				unsup("spec: unknown type %s", qv.Type)
			}
			ls := x.c.leaves(T)
			if len(ls) != 1 {
				unsup("spec: quantified variable of composite type %s", qv.Type)
			}
			x.qcount++
			t := Var(fmt.Sprintf("%s!b%d", qv.Name, x.qcount), ls[0].S)
			vars = append(vars, t)
			nsc = nsc.with(qv.Name, scalar(T, t))
		}
		body := x.evalSpec0(nsc, n.Body, nil).L[0]
		return boolV(Quant(n.Q, vars, body))
	}
	unsup("spec: cannot evaluate %T", e)
	return Value{}
}

func (x *Exec) specIdent(sc *specScope, name string, hint types.Type) Value {
	if v, ok := sc.bound[name]; ok {
		return v
	}
	if v, ok := sc.results[name]; ok {
		return v
	}
	if sc.fr != nil {
		if sc.inOld && sc.fr.fn != nil {
			// inside old(...): a parameter denotes the value passed in, also when the body keeps the
			// parameter in a cell of its own (address taken, captured by a closure) that did not exist at entry
			for _, p := range sc.fr.fn.Params {
				if p.Name() == name {
					if v, ok := sc.fr.env[p]; ok {
						return v
					}
				}
			}
		}
		if sv, ok := sc.fr.names[name]; ok {
			if c, isc := sv.(*ssa.Const); isc {
				return x.constValue(c)
			}
			if v, ok := sc.fr.env[sv]; ok {
				if a, isAlloc := sv.(*ssa.Alloc); isAlloc {
					_ = a
					return x.loadAny(sc.st, x.ptrLoc(v))
				}
				if _, isFV := sv.(*ssa.FreeVar); isFV {
					// a captured variable: the name denotes its current value
					return x.loadAny(sc.st, x.ptrLoc(v))
				}
				return v
			}
			if g, isg := sv.(*ssa.Global); isg {
				if gv, ok := x.globalConst(g); ok {
					return gv
				}
				return x.load(sc.st, x.globalAddr(g).Loc)
			}
		}
		// package-level member (of the generic's package for an instance of a generic function)
		if sc.fr.fn != nil {
			if v, ok := x.specPkgMember(sc, "", name); ok {
				return v
			}
		}
	}
	if g, ok := x.ghostVars[name]; ok {
		return g(sc)
	}
	// a local variable of the function that this path never assigned (e.g. named in an ensures clause and
	// the path returned early): an unconstrained value -- the clause must then hold whatever it is
	if sc.fr != nil && sc.fr.fn != nil {
		for _, b := range sc.fr.fn.Blocks {
			for _, ins := range b.Instrs {
				if d, ok := ins.(*ssa.DebugRef); ok {
					if id, ok := d.Expr.(*ast.Ident); ok && id.Name == name && !d.IsAddr {
						return x.freshValue(sc.st, "unbound_"+name, d.X.Type())
					}
				}
			}
		}
	}
	unsup("spec: unknown identifier %q in %s", name, x.topName)
	return Value{}
}

func (x *Exec) specPkgMember(sc *specScope, pkgName, name string) (Value, bool) {
	var pkg *ssa.Package
	if pkgName == "" {
		fn := sc.fr.fn
		for fn.Parent() != nil {
			fn = fn.Parent()
		}
		pkg = fn.Pkg
		if pkg == nil && fn.Origin() != nil {
			pkg = fn.Origin().Pkg
		}
	} else {
		var cur *ssa.Package
		if sc.fr != nil && sc.fr.fn != nil {
			f := sc.fr.fn
			for f.Parent() != nil {
				f = f.Parent()
			}
			cur = f.Pkg
			if cur == nil && f.Origin() != nil {
				cur = f.Origin().Pkg
			}
		}
		for _, p := range x.prog.AllPackages() {
			if p.Pkg.Name() == pkgName {
				// prefer imports of the current package, then a package that has the member
				if pkg == nil || (pkg.Members[name] == nil && p.Members[name] != nil) {
					pkg = p
				}
				if cur != nil {
					for _, imp := range cur.Pkg.Imports() {
						if imp == p.Pkg {
							pkg = p
							goto found
						}
					}
				}
			}
		}
	found:
	}
	if pkg == nil {
		return Value{}, false
	}
	switch m := pkg.Members[name].(type) {
	case *ssa.NamedConst:
		return x.constValue(m.Value), true
	case *ssa.Global:
		if gv, ok := x.globalConst(m); ok {
			return gv, true
		}
		return x.load(sc.st, x.globalAddr(m).Loc), true
	}
	// constants declared in go/types scope but not SSA members (e.g. typed consts in other packages)
	if o := pkg.Pkg.Scope().Lookup(name); o != nil {
		if c, ok := o.(*types.Const); ok {
			return x.constValue(ssa.NewConst(c.Val(), c.Type())), true
		}
	}
	return Value{}, false
}

func (x *Exec) specField(sc *specScope, base Value, name string) Value {
	T := base.T
	if pt, ok := T.Underlying().(*types.Pointer); ok {
		loc := *x.ptrLoc(base)
		stt, ok := pt.Elem().Underlying().(*types.Struct)
		if !ok {
			unsup("spec: field %s of %s", name, T)
		}
		idx, ft := x.findField(stt, name)
		if idx < 0 {
			unsup("spec: no field %s in %s", name, pt.Elem())
		}
		lo, hi := x.c.fieldRange(stt, idx)
		loc.Lo, loc.Hi, loc.T = loc.Lo+lo, loc.Lo+hi, ft
		return x.specLoad(sc, &loc)
	}
	if stt, ok := T.Underlying().(*types.Struct); ok {
		idx, ft := x.findField(stt, name)
		if idx < 0 {
			unsup("spec: no field %s in %s", name, T)
		}
		lo, hi := x.c.fieldRange(stt, idx)
		return Value{T: ft, L: base.L[lo:hi]}
	}
	if _, ok := T.Underlying().(*types.Slice); ok {
		p := sl(base)
		switch name {
		case "base":
			return scalar(types.NewPointer(types.Typ[types.Int]), p.base)
		case "off":
			return scalar(tInt, p.off)
		}
	}
	unsup("spec: selector .%s on %s", name, T)
	return Value{}
}

func (x *Exec) findField(stt *types.Struct, name string) (int, types.Type) {
	for i := 0; i < stt.NumFields(); i++ {
		if stt.Field(i).Name() == name {
			return i, stt.Field(i).Type()
		}
	}
	return -1, nil
}

func (x *Exec) specIndex(sc *specScope, base Value, ie Expr) Value {
	switch t := base.T.Underlying().(type) {
	case *types.Slice:
		i := x.idx64(x.evalSpec0(sc, ie, tInt))
		return x.load(sc.st, x.elemLoc(base, i))
	case *types.Array:
		i := x.idx64(x.evalSpec0(sc, ie, tInt))
		out := Value{T: t.Elem()}
		for _, l := range base.L {
			out.L = append(out.L, Select(l, i))
		}
		return out
	case *types.Basic:
		i := x.idx64(x.evalSpec0(sc, ie, tInt))
		return scalar(types.Typ[types.Uint8], Apply("str.at", SBV(8), base.L[0], i))
	case *types.Map:
		mf := x.mapFam(base.T)
		k := x.evalSpec0(sc, ie, mf.K).L[0]
		val := Value{T: mf.V}
		for j := range x.c.leaves(mf.V) {
			vc, _ := x.mapComp(sc.st, mf, "val", j)
			val.L = append(val.L, Select(Select(vc, base.L[0]), k))
		}
		return val
	case *types.Pointer:
		if at, ok := t.Elem().Underlying().(*types.Array); ok {
			i := x.idx64(x.evalSpec0(sc, ie, tInt))
			loc := *x.ptrLoc(base)
			loc.Idx = append(append([]*Term(nil), loc.Idx...), i)
			loc.T = at.Elem()
			return x.specLoad(sc, &loc)
		}
	}
	unsup("spec: index on %s", base.T)
	return Value{}
}

func (x *Exec) specBin(sc *specScope, n *EBin, hint types.Type) Value {
	switch n.Op {
	case "&&":
		return boolV(And(x.evalSpec0(sc, n.X, nil).L[0], x.evalSpec0(sc, n.Y, nil).L[0]))
	case "||":
		return boolV(Or(x.evalSpec0(sc, n.X, nil).L[0], x.evalSpec0(sc, n.Y, nil).L[0]))
	case "==>":
		lhs := x.evalSpec0(sc, n.X, nil).L[0]
		if lhs.IsFalse() {
			return boolV(True)
		}
		// a consequent that talks about a call which did not happen on this path is false
		rhs := func() (r *Term) {
			defer func() {
				if p := recover(); p != nil {
					if u, ok := p.(unsupported); ok && strings.Contains(u.msg, "no recorded call") {
						r = BoolLit(sc.assumeMode) // obligation: false; assumption at a call site: vacuous
						return
					}
					panic(p)
				}
			}()
			return x.evalSpec0(sc, n.Y, nil).L[0]
		}()
		return boolV(Implies(lhs, rhs))
	case "<==>":
		return boolV(Eq(x.evalSpec0(sc, n.X, nil).L[0], x.evalSpec0(sc, n.Y, nil).L[0]))
	}
	// evaluate the non-literal side first to type the literal
	var a, b Value
	_, xl := n.X.(*ELit)
	_, yl := n.Y.(*ELit)
	switch {
	case xl && !yl:
		b = x.evalSpec0(sc, n.Y, hint)
		a = x.evalSpec0(sc, n.X, b.T)
	case n.Op == "<<" || n.Op == ">>":
		a = x.evalSpec0(sc, n.X, hint)
		b = x.evalSpec0(sc, n.Y, types.Typ[types.Uint])
	default:
		a = x.evalSpec0(sc, n.X, hint)
		b = x.evalSpec0(sc, n.Y, a.T)
	}
	tokOf := map[string]string{"+": "ADD", "-": "SUB"}
	_ = tokOf
	switch n.Op {
	case "==", "!=":
		var eq *Term
		_, ai := a.T.Underlying().(*types.Interface)
		switch {
		case ai:
			if isNilConst(b) || isUntypedNil(b) {
				eq = Eq(a.L[0], IntLit(0))
			} else {
				eq = x.ifaceEq(a, b)
			}
		case len(a.L) == 1 && a.L[0] == nil && a.Loc != nil && (isUntypedNil(b) || isNilConst(b)):
			eq = False // the address of a field or element is never nil
		case isSliceT(a.T) && (isUntypedNil(b) || isNilConst(b)):
			eq = Eq(a.L[0], IntLit(0))
		case isUntypedNil(b):
			eq = Eq(a.L[0], IntLit(0))
		default:
			if len(a.L) != len(b.L) {
				unsup("spec: comparing %s with %s", a.T, b.T)
			}
			var cs []*Term
			for i := range a.L {
				if a.L[i] == nil || b.L[i] == nil {
					unsup("spec: comparing interior pointers")
				}
				l, r := a.L[i], b.L[i]
				if l.S.K == 'v' && r.S.K == 'v' && l.S.W != r.S.W {
					unsup("spec: comparing integers of different widths (%s vs %s); add a conversion", a.T, b.T)
				}
				cs = append(cs, Eq(l, r))
			}
			eq = And(cs...)
		}
		if n.Op == "!=" {
			eq = Not(eq)
		}
		return boolV(eq)
	}
	if isInteger(a.T) {
		if a.L[0].S.W != b.L[0].S.W && n.Op != "<<" && n.Op != ">>" {
			unsup("spec: operands of %s have different widths (%s vs %s)", n.Op, a.T, b.T)
		}
		s := isSigned(a.T)
		l, r := a.L[0], b.L[0]
		cmp := func(sop, uop string) Value {
			if s {
				return boolV(BVCmp(sop, l, r))
			}
			return boolV(BVCmp(uop, l, r))
		}
		w := l.S.W
		switch n.Op {
		case "+":
			return scalar(a.T, BVBin("bvadd", l, r))
		case "-":
			return scalar(a.T, BVBin("bvsub", l, r))
		case "*":
			return scalar(a.T, BVBin("bvmul", l, r))
		case "/":
			if s {
				return scalar(a.T, BVBin("bvsdiv", l, r))
			}
			return scalar(a.T, BVBin("bvudiv", l, r))
		case "%":
			if s {
				return scalar(a.T, BVBin("bvsrem", l, r))
			}
			return scalar(a.T, BVBin("bvurem", l, r))
		case "&":
			return scalar(a.T, BVBin("bvand", l, r))
		case "|":
			return scalar(a.T, BVBin("bvor", l, r))
		case "^":
			return scalar(a.T, BVBin("bvxor", l, r))
		case "&^":
			return scalar(a.T, BVBin("bvand", l, &Term{Op: "bvnot", Args: []*Term{r}, S: r.S}))
		case "<<", ">>":
			cnt := r
			var bigc *Term = False
			if cnt.S.W > w {
				bigc = BVCmp("bvuge", cnt, BVLit64(int64(w), cnt.S.W))
				cnt = Extract(w-1, 0, cnt)
			} else if cnt.S.W < w {
				cnt = ZeroExt(cnt, w)
			}
			if n.Op == "<<" {
				return scalar(a.T, Ite(bigc, BVLit64(0, w), BVBin("bvshl", l, cnt)))
			}
			if s {
				return scalar(a.T, Ite(bigc, BVBin("bvashr", l, BVLit64(int64(w-1), w)), BVBin("bvashr", l, cnt)))
			}
			return scalar(a.T, Ite(bigc, BVLit64(0, w), BVBin("bvlshr", l, cnt)))
		case "<":
			return cmp("bvslt", "bvult")
		case "<=":
			return cmp("bvsle", "bvule")
		case ">":
			return cmp("bvsgt", "bvugt")
		case ">=":
			return cmp("bvsge", "bvuge")
		}
	}
	if a.L[0].S.K == 'i' {
		switch n.Op {
		case "<", "<=", ">", ">=":
			return boolV(IntCmp(n.Op, a.L[0], b.L[0]))
		case "+", "-", "*":
			return scalar(a.T, IntBin(n.Op, a.L[0], b.L[0]))
		}
	}
	if isString(a.T) && n.Op == "<" {
		return boolV(Apply("str.lt", SBool, a.L[0], b.L[0]))
	}
	unsup("spec: operator %s on %s", n.Op, a.T)
	return Value{}
}

func isUntypedNil(v Value) bool {
	b, ok := v.T.(*types.Basic)
	return ok && b.Kind() == types.UntypedNil
}

func (x *Exec) specCall(sc *specScope, n *ECall, hint types.Type) Value {
	switch n.Fun {
	case "old":
		nsc := *sc
		nsc.st = sc.old
		nsc.inOld = true
		return x.evalSpec0(&nsc, n.Args[0], hint)
	case "prev":
		if sc.prevFr == nil || sc.prevSt == nil {
			unsup("spec: prev(...) is only meaningful in a loop step clause")
		}
		nsc := *sc
		nsc.fr, nsc.st = sc.prevFr, sc.prevSt
		nsc.prevFr, nsc.prevSt = nil, nil
		return x.evalSpec0(&nsc, n.Args[0], hint)
	case "len":
		v := x.evalSpec0(sc, n.Args[0], nil)
		switch u := v.T.Underlying().(type) {
		case *types.Slice:
			return scalar(tInt, sl(v).ln)
		case *types.Basic:
			return scalar(tInt, Apply("str.len", idxSort, v.L[0]))
		case *types.Array:
			return scalar(tInt, BVLit64(u.Len(), 64))
		case *types.Map:
			return scalar(tInt, x.mapLen(sc.st, v))
		case *types.Pointer:
			if at, ok := u.Elem().Underlying().(*types.Array); ok {
				return scalar(tInt, BVLit64(at.Len(), 64))
			}
		}
		unsup("spec: len of %s", v.T)
	case "cap":
		v := x.evalSpec0(sc, n.Args[0], nil)
		return scalar(tInt, sl(v).cp)
	case "ite":
		c := x.evalSpec0(sc, n.Args[0], nil)
		a := x.evalSpec0(sc, n.Args[1], hint)
		b := x.evalSpec0(sc, n.Args[2], a.T)
		out := Value{T: a.T}
		for i := range a.L {
			out.L = append(out.L, Ite(c.L[0], a.L[i], b.L[i]))
		}
		return out
	case "in":
		// in(m, k): key k is in map m
		m := x.evalSpec0(sc, n.Args[0], nil)
		mf := x.mapFam(m.T)
		k := x.evalSpec0(sc, n.Args[1], mf.K)
		dom, _ := x.mapComp(sc.st, mf, "dom", 0)
		return boolV(And(Not(Eq(m.L[0], IntLit(0))), Select(Select(dom, m.L[0]), k.L[0])))
	case "isnil":
		v := x.evalSpec0(sc, n.Args[0], nil)
		return boolV(Eq(v.L[0], IntLit(0)))
	case "typeis":
		// typeis(ifaceValue, "pkg.Type")
		v := x.evalSpec0(sc, n.Args[0], nil)
		lit, ok := n.Args[1].(*ELit)
		if !ok {
			unsup("spec: typeis needs a string literal")
		}
		T := x.specType(sc, lit.Text)
		if T == nil {
			unsup("spec: typeis unknown type %s", lit.Text)
		}
		return boolV(Eq(v.L[0], IntLit(int64(x.c.typeTag(T)))))
	case "sext64":
		v := x.evalSpec0(sc, n.Args[0], nil)
		return scalar(types.Typ[types.Int64], SignExt(v.L[0], 64))
	}
	// string(bytes): the same uninterpreted conversion as in code
	if n.Fun == "string" && len(n.Args) == 1 {
		v := x.evalSpec0(sc, n.Args[0], nil)
		if isSliceT(v.T) {
			x.needStrAxioms()
			p := sl(v)
			arr := Select(x.comp(sc.st, "arr:uint8", types.Typ[types.Uint8], 0), p.base)
			return scalar(types.Typ[types.String], Apply("str.of", SStr, arr, p.off, p.ln))
		}
		if isString(v.T) {
			return v
		}
	}
	// conversions
	if T := x.basicType(n.Fun); T != nil && len(n.Args) == 1 && isInteger(T) {
		v := x.evalSpec0(sc, n.Args[0], T)
		if !isInteger(v.T) {
			unsup("spec: conversion %s(%s)", n.Fun, v.T)
		}
		w, _, _ := basicWidth(T.Underlying().(*types.Basic))
		t := v.L[0]
		switch {
		case w == t.S.W:
		case w < t.S.W:
			t = Extract(w-1, 0, t)
		case isSigned(v.T):
			t = SignExt(t, w)
		default:
			t = ZeroExt(t, w)
		}
		return scalar(T, t)
	}
	if f, ok := x.specBuiltins[n.Fun]; ok {
		return f(sc, n)
	}
	// spec functions
	if x.specs != nil {
		if sf, ok := x.specs.Funcs[n.Fun]; ok {
			if sc.depth > 40 {
				unsup("spec: recursion too deep in %s", n.Fun)
			}
			if len(sf.Params) != len(n.Args) {
				unsup("spec: %s expects %d arguments", n.Fun, len(sf.Params))
			}
			if sf.Body == nil {
				// uninterpreted: one SMT function over the flattened arguments
				rt := x.specType(sc, sf.Ret)
				if rt == nil {
					unsup("spec: %s: unknown result type %s", n.Fun, sf.Ret)
				}
				rls := x.c.leaves(rt)
				if len(rls) != 1 {
					unsup("spec: uninterpreted %s must have a scalar result", n.Fun)
				}
				var as []*Term
				var sorts []Sort
				for i, p := range sf.Params {
					pt := x.specType(sc, p.Type)
					if pt == nil {
						unsup("spec: %s: unknown parameter type %s", n.Fun, p.Type)
					}
					av := x.evalSpec0(sc, n.Args[i], pt)
					for _, t := range av.L {
						as = append(as, t)
						sorts = append(sorts, t.S)
					}
				}
				name := "uf_" + sanitize(n.Fun)
				x.c.declFun(name, sorts, rls[0].S)
				x.c.note("uninterpreted specification function %s: only what trusted contracts state about it is known", n.Fun)
				return Value{T: rt, L: []*Term{Apply(name, rls[0].S, as...)}}
			}
			nsc := &specScope{x: x, fr: sc.fr, st: sc.st, old: sc.old, results: nil, bound: map[string]Value{}, depth: sc.depth + 1}
			for i, p := range sf.Params {
				pt := x.specType(sc, p.Type)
				nsc.bound[p.Name] = x.evalSpec0(sc, n.Args[i], pt)
			}
			return x.evalSpec0(nsc, sf.Body, x.specType(sc, sf.Ret))
		}
	}
	// named type conversion e.g. Reputation(x)
	if T := x.specType(sc, n.Fun); T != nil && len(n.Args) == 1 {
		v := x.evalSpec0(sc, n.Args[0], T)
		if isInteger(T) && isInteger(v.T) {
			w, _, _ := basicWidth(T.Underlying().(*types.Basic))
			t := v.L[0]
			switch {
			case w == t.S.W:
			case w < t.S.W:
				t = Extract(w-1, 0, t)
			case isSigned(v.T):
				t = SignExt(t, w)
			default:
				t = ZeroExt(t, w)
			}
			return scalar(T, t)
		}
		v.T = T
		return v
	}
	unsup("spec: unknown function %s", n.Fun)
	return Value{}
}

var _ = constant.MakeBool
