package vc

import (
	"os"
	"fmt"
	"go/token"
	"go/types"
	"strings"

	"golang.org/x/tools/go/ssa"
)

const modulePrefix = "github.com/ChainSafe/gossamer/"

func inModule(fn *ssa.Function) bool {
	if fn.Pkg == nil {
		// instantiated generics / wrappers: look at origin
		if o := fn.Origin(); o != nil && o.Pkg != nil {
			return strings.HasPrefix(o.Pkg.Pkg.Path(), modulePrefix)
		}
		if fn.Parent() != nil {
			return inModule(fn.Parent())
		}
		return false
	}
	return strings.HasPrefix(fn.Pkg.Pkg.Path(), modulePrefix)
}

func (x *Exec) calleeValue(fr *Frame, c *ssa.CallCommon) Value {
	return x.val(fr, c.Value)
}

// call executes a call instruction; returns the outcomes (state + results).
func (x *Exec) call(fr *Frame, st *State, instr ssa.Instruction, c *ssa.CallCommon, pos token.Pos) []Outcome {
	var args []Value
	if b, ok := c.Value.(*ssa.Builtin); ok {
		for _, a := range c.Args {
			args = append(args, x.val(fr, a))
		}
		var rt types.Type
		if v, ok := instr.(ssa.Value); ok {
			rt = v.Type()
		}
		r := x.builtin(fr, st, b.Name(), args, rt, pos, c)
		if r == nil {
			return []Outcome{{St: st, Kind: OutReturn}}
		}
		return []Outcome{{St: st, Kind: OutReturn, Rets: []Value{*r}}}
	}
	if c.IsInvoke() {
		recv := x.val(fr, c.Value)
		for _, a := range c.Args {
			args = append(args, x.val(fr, a))
		}
		return x.invoke(fr, st, c, recv, args, pos)
	}
	fv := x.val(fr, c.Value)
	for _, a := range c.Args {
		args = append(args, x.val(fr, a))
	}
	return x.callValue(fr, st, c, fv, args, pos)
}

func (x *Exec) callValue(fr *Frame, st *State, c *ssa.CallCommon, fv Value, args []Value, pos token.Pos) []Outcome {
	if c != nil && c.IsInvoke() {
		return x.invoke(fr, st, c, fv, args, pos)
	}
	if fv.Fn == nil {
		// unknown function value
		x.oblige(fr, st, "nil", x.src(fr.fn, pos, "call")+"(fn)", pos, Not(Eq(fv.L[0], IntLit(0))))
		x.logCall(st, "dynamic call "+x.src(fr.fn, pos, "call"), args)
		return x.unknownCall(fr, st, "dynamic call "+x.src(fr.fn, pos, "call"), c.Signature(), args, false)
	}
	return x.callFn(fr, st, fv.Fn.Fn, args, fv.Fn.Binds, pos)
}

func (x *Exec) invoke(fr *Frame, st *State, c *ssa.CallCommon, recv Value, args []Value, pos token.Pos) []Outcome {
	if n, ok := recv.T.(*types.Named); ok && n.Obj().Pkg() != nil {
		for _, pre := range noEffectPkgs {
			if p := n.Obj().Pkg().Path(); p == pre || strings.HasPrefix(p, pre) {
				// logging / metrics interfaces: no effect on verified state, nil receivers not considered
				var rets []Value
				for i := 0; i < c.Signature().Results().Len(); i++ {
					rets = append(rets, x.freshValue(st, "noeff", c.Signature().Results().At(i).Type()))
				}
				x.c.note("A-log: calls into logging/metrics packages have no effect on verified state")
				return []Outcome{{St: st, Kind: OutReturn, Rets: rets}}
			}
		}
	}
	x.oblige(fr, st, "nil", x.src(fr.fn, pos, "invoke")+"(recv)", pos, Not(Eq(recv.L[0], IntLit(0))))
	st.assume(Not(Eq(recv.L[0], IntLit(0))))
	// dynamic type known?
	var dyn types.Type
	if recv.L[0].IsLit {
		id := int(recv.L[0].Val.Int64())
		if id > 0 && id < len(x.c.tagTypes) {
			dyn = x.c.tagTypes[id]
		}
	}
	if dyn == nil {
		if id, ok := x.dynTags[recv.L[0].String()]; ok {
			dyn = x.c.tagTypes[id]
		}
	}
	if dyn != nil {
		sel := x.prog.MethodSets.MethodSet(dyn).Lookup(c.Method.Pkg(), c.Method.Name())
		if sel != nil {
			fn := x.prog.MethodValue(sel)
			if fn != nil {
				rv := x.unbox(st, recv, dyn)
				return x.callFn(fr, st, fn, append([]Value{rv}, args...), nil, pos)
			}
		}
	}
	// dynamic type unknown: case split over the in-module concrete types seen so far that implement the
	// interface, plus a residual case handled abstractly
	if it, ok := recv.T.Underlying().(*types.Interface); ok && !recv.L[0].IsLit && fr.depth < x.maxInline {
		var cands []int
		for id := 1; id < len(x.c.tagTypes); id++ {
			T := x.c.tagTypes[id]
			if T == errPseudoType || !types.Implements(T, it) {
				continue
			}
			if sel := x.prog.MethodSets.MethodSet(T).Lookup(c.Method.Pkg(), c.Method.Name()); sel != nil {
				if fn := x.prog.MethodValue(sel); fn != nil && (inModule(fn) || x.inlineExt[fn.String()]) && len(fn.Blocks) > 0 {
					cands = append(cands, id)
				}
			}
		}
		if len(cands) > 0 && len(cands) <= 4 {
			var outs []Outcome
			var notAny []*Term
			for _, id := range cands {
				T := x.c.tagTypes[id]
				s2 := st.clone()
				s2.assume(Eq(recv.L[0], IntLit(int64(id))))
				notAny = append(notAny, Not(Eq(recv.L[0], IntLit(int64(id)))))
				fn := x.prog.MethodValue(x.prog.MethodSets.MethodSet(T).Lookup(c.Method.Pkg(), c.Method.Name()))
				rv := x.unbox(s2, recv, T)
				outs = append(outs, x.callFn(fr, s2, fn, append([]Value{rv}, args...), nil, pos)...)
			}
			st.assume(And(notAny...))
			if os.Getenv("VCHECK_DEBUG") != "" {
				fmt.Fprintf(os.Stderr, "  [invoke split %s: %d candidates, %d candidate outcomes]\n", c.Method.Name(), len(cands), len(outs))
			}
			name := "(" + typeName(recv.T) + ")." + c.Method.Name()
			x.logCall(st, name, append([]Value{recv}, args...))
			outs = append(outs, x.unknownCall(fr, st, "interface method "+name, c.Signature(), append([]Value{recv}, args...), false)...)
			return outs
		}
	}
	// interface method contract?
	name := "(" + typeName(recv.T) + ")." + c.Method.Name()
	if fr.depth == 0 && !st.dry && !x.inInit {
		if tfc := x.contracts[contractKey(x.top)]; tfc != nil {
			for _, oc := range tfc.OnCall {
				if oc.Type == name {
					bound := map[string]Value{"arg0": recv}
					for i, a := range args {
						bound[fmt.Sprintf("arg%d", i+1)] = a
					}
					g := x.evalSpec(&specScope{x: x, fr: fr, st: st, old: fr.entry, bound: bound}, oc.Expr)
					x.oblige(fr, st, "call", x.src(fr.fn, pos, "invoke")+":"+oc.Label, pos, g.L[0])
				}
			}
		}
	}
	x.logCall(st, name, append([]Value{recv}, args...))
	if m, ok := x.models[name]; ok {
		return m(x, fr, st, append([]Value{recv}, args...), pos)
	}
	if fc := x.contracts[name]; fc != nil {
		return x.invokeContract(fr, st, name, c, fc, recv, args, pos)
	}
	if pureIfaceMethods[name] {
		var rets []Value
		for i := 0; i < c.Signature().Results().Len(); i++ {
			rets = append(rets, x.freshValue(st, "pure_"+c.Method.Name(), c.Signature().Results().At(i).Type()))
		}
		x.c.note("assumed: interface method %s only reads its arguments (results unconstrained)", name)
		return []Outcome{{St: st, Kind: OutReturn, Rets: rets}}
	}
	return x.unknownCall(fr, st, "interface method "+name, c.Signature(), append([]Value{recv}, args...), false)
}

func (x *Exec) inChain(fr *Frame, fn *ssa.Function) bool {
	return strings.Contains(">"+fr.chain+">", ">"+fn.Name()+">") || fr.fn == fn
}

func (x *Exec) callFn(fr *Frame, st *State, fn *ssa.Function, args []Value, binds []Value, pos token.Pos) []Outcome {
	full := fn.String()
	if o := fn.Origin(); o != nil {
		full = o.String()
	}
	x.logCall(st, strings.ReplaceAll(full, modulePrefix, ""), args)
	if rfr := fr.root(); rfr.depth == 0 && rfr.fn == x.top && !st.dry && !x.inInit {
		if tfc := x.contracts[contractKey(x.top)]; tfc != nil {
			for _, oc := range tfc.OnCall {
				if nm := strings.ReplaceAll(full, modulePrefix, ""); oc.Type == nm || oc.Type == stripTypeArgs(nm) {
					// (also for calls made from callees executed from their bodies: the clause is
					// evaluated in the scope of the function under contract)
					bound := map[string]Value{}
					for i, a := range args {
						bound[fmt.Sprintf("arg%d", i)] = a
					}
					g := x.evalSpec(&specScope{x: x, fr: rfr, st: st, old: rfr.entry, bound: bound}, oc.Expr)
					x.oblige(fr, st, "call", x.src(fr.fn, pos, "call")+":"+oc.Label, pos, g.L[0])
				}
			}
		}
	}
	if x.inInit && fn.Name() == "init" && fn.Pkg != x.initPkg {
		return []Outcome{{St: st, Kind: OutReturn}}
	}
	if m, ok := x.models[full]; ok {
		outs := m(x, fr, st, args, pos)
		if len(outs) == 1 && outs[0].Kind == OutReturn {
			if outs[0].St.calls == nil {
				outs[0].St.calls = map[string][]Value{}
			}
			outs[0].St.calls[strings.ReplaceAll(full, modulePrefix, "")+"#ret"] = outs[0].Rets
		}
		return outs
	}
	if pureFuncs[full] {
		var rets []Value
		for i := 0; i < fn.Signature.Results().Len(); i++ {
			rets = append(rets, x.freshValue(st, "pure_"+fn.Name(), fn.Signature.Results().At(i).Type()))
		}
		x.c.note("assumed: %s only reads its arguments (result unconstrained)", full)
		if full == "reflect.TypeOf" && len(rets) == 1 {
			st.assume(Not(Eq(rets[0].L[0], IntLit(0))))
			x.c.note("assumed: reflect.TypeOf of a value obtained from a valid reflect.Value is non-nil")
		}
		if ctorFuncs[full] && len(rets) == 2 {
			// library constructor convention: a nil error comes with a non-nil result
			st.assume(Implies(Eq(rets[1].L[0], IntLit(0)), Not(Eq(rets[0].L[0], IntLit(0)))))
			x.c.note("assumed: %s returns a non-nil value whenever it returns a nil error", full)
		}
		if st.calls == nil {
			st.calls = map[string][]Value{}
		}
		st.calls[strings.ReplaceAll(full, modulePrefix, "")+"#ret"] = rets
		return []Outcome{{St: st, Kind: OutReturn, Rets: rets}}
	}
	if isNoEffect(fn) {
		var rets []Value
		for i := 0; i < fn.Signature.Results().Len(); i++ {
			rets = append(rets, x.freshValue(st, "noeff", fn.Signature.Results().At(i).Type()))
		}
		x.c.note("A-log: calls into logging/metrics packages have no effect on verified state")
		return []Outcome{{St: st, Kind: OutReturn, Rets: rets}}
	}
	if fc := x.contracts[contractKey(fn)]; fc != nil && !fc.Inline {
		// replay refinement: prefer the real body over the callee's contract where it can be inlined
		inl := x.preferInline && !fc.Trusted && len(fn.Blocks) > 0 && fr.depth < x.maxInline+2 && !x.inChain(fr, fn)
		if !inl {
			return x.callContract(fr, st, fn, fc, args, pos)
		}
	}
	maxIn := x.maxInline
	if x.preferInline {
		maxIn += 2
	}
	if len(fn.Blocks) > 0 && fr.depth < maxIn && !x.inChain(fr, fn) && (inModule(fn) || x.inlineExt[full]) {
		chain := fn.Name()
		if fr.chain != "" {
			chain = fr.chain + ">" + fn.Name()
		}
		st.depth++
		saved := x.callerFr
		x.callerFr = fr
		outs := x.runFunc(st, fn, args, binds, chain, fr.depth+1, nil)
		x.callerFr = saved
		var res []Outcome
		for _, o := range outs {
			o.St.depth--
			res = append(res, o)
		}
		return res
	}
	// (recorded under the same name as the call log: the generic origin for instances)
	return x.unknownCall(fr, st, strings.ReplaceAll(full, modulePrefix, ""), fn.Signature, args, inModule(fn))
}

// unknownCall models a call to a function without body, model or contract.
func (x *Exec) unknownCall(fr *Frame, st *State, name string, sig *types.Signature, args []Value, clobberAll bool) []Outcome {
	if os.Getenv("VCHECK_DEBUG") != "" {
		fmt.Fprintf(os.Stderr, "  [unknown call recorded as %q]\n", name)
	}
	if clobberAll {
		x.c.note("call to %s not inlined (recursive, too deep or no body) and has no contract: all heap havocked", name)
		x.frameWrite(st, "*", nil)
		x.havocAll(st)
		st.calls = map[string][]Value{}
	} else {
		x.c.note("A-ext: %s assumed to modify only memory directly referenced by its arguments; results unconstrained", name)
		for _, a := range args {
			if ls := x.c.leaves(a.T); len(ls) == 1 && ls[0].Kind == 'r' && len(a.L) == 1 && a.L[0] != nil {
				x.guardAccess(st, a.L[0], false)
			}
			x.havocReachable(st, a)
		}
	}
	x.bumpAlloc(st)
	var rets []Value
	if sig != nil {
		for i := 0; i < sig.Results().Len(); i++ {
			rets = append(rets, x.freshValue(st, "ret_"+sanitize(name), sig.Results().At(i).Type()))
		}
	}
	// results of abstracted calls are recorded next to their arguments (spec: lastret("name", i))
	if st.calls == nil {
		st.calls = map[string][]Value{}
	}
	st.calls[strings.TrimPrefix(name, "interface method ")+"#ret"] = rets
	x.countOK(st, strings.TrimPrefix(name, "interface method "), rets)
	return []Outcome{{St: st, Kind: OutReturn, Rets: rets}}
}

// havocReachable havocs the memory directly referenced by v (slice backing arrays, pointees).
func (x *Exec) havocReachable(st *State, v Value) {
	switch t := v.T.Underlying().(type) {
	case *types.Slice:
		et := t.Elem()
		fam := "arr:" + x.c.elemFamName(et)
		for j, l := range x.c.leaves(et) {
			c := x.comp(st, fam, et, j)
			x.setComp(st, fam, et, j, Store(c, v.L[0], x.c.Fresh("hv", SArr(idxSort, l.S))))
		}
	case *types.Interface:
		// payload of statically known pointer type: havoc the pointee
		id, known := 0, false
		if v.L[0].IsLit {
			id, known = int(v.L[0].Val.Int64()), true
		} else if d, ok := x.dynTags[v.L[0].String()]; ok {
			id, known = d, true
		}
		if known {
			if id > 0 && id < len(x.c.tagTypes) {
				if _, isPtr := x.c.tagTypes[id].Underlying().(*types.Pointer); isPtr {
					x.havocReachable(st, Value{T: x.c.tagTypes[id], L: []*Term{v.L[1]}})
				}
			}
		}
	case *types.Pointer:
		if l := x.ptrLoc(v); l != nil && (v.Loc != nil || (v.L[0].Op == "const" && x.locOf[v.L[0].Name] != nil)) {
			fv := x.freshValue(st, "hv", l.T)
			x.store(st, l, fv)
			return
		}
		fam, root, isArr := x.c.famOf(t.Elem())
		for j, l := range x.c.leaves(root) {
			c := x.comp(st, fam, root, j)
			s := l.S
			if isArr {
				s = SArr(idxSort, l.S)
			}
			x.setComp(st, fam, root, j, Store(c, v.L[0], x.c.Fresh("hv", s)))
		}
		if typeName(t.Elem()) == "container/list.List" {
			// the sequence of a list goes with the list object
			x.listForget(st, v.L[0], nil)
		}
	case *types.Map:
		mf := x.mapFam(v.T)
		dom, dk := x.mapComp(st, mf, "dom", 0)
		x.setRaw(st, dk, Store(dom, v.L[0], x.c.Fresh("hv", SArr(mf.ks, SBool))))
		ln, lk := x.mapComp(st, mf, "len", 0)
		x.setRaw(st, lk, Store(ln, v.L[0], x.c.Fresh("hv", idxSort)))
		for j, l := range x.c.leaves(mf.V) {
			vc, vk := x.mapComp(st, mf, "val", j)
			x.setRaw(st, vk, Store(vc, v.L[0], x.c.Fresh("hv", SArr(mf.ks, l.S))))
		}
	}
}

// ---------- builtins ----------

func (x *Exec) builtin(fr *Frame, st *State, name string, args []Value, rt types.Type, pos token.Pos, c *ssa.CallCommon) *Value {
	switch name {
	case "len":
		a := args[0]
		var t *Term
		switch u := a.T.Underlying().(type) {
		case *types.Slice:
			t = sl(a).ln
		case *types.Basic:
			t = Apply("str.len", idxSort, a.L[0])
		case *types.Map:
			t = x.mapLen(st, a)
		case *types.Array:
			t = BVLit64(u.Len(), 64)
		case *types.Pointer:
			t = BVLit64(u.Elem().Underlying().(*types.Array).Len(), 64)
		case *types.Chan:
			t = x.c.Fresh("chanlen", idxSort)
		default:
			unsup("len of %s", a.T)
		}
		v := scalar(rt, t)
		return &v
	case "cap":
		a := args[0]
		var t *Term
		switch u := a.T.Underlying().(type) {
		case *types.Slice:
			t = sl(a).cp
		case *types.Array:
			t = BVLit64(u.Len(), 64)
		default:
			t = x.c.Fresh("cap", idxSort)
		}
		v := scalar(rt, t)
		return &v
	case "append":
		v := x.appendOp(fr, st, args[0], args[1], rt)
		return &v
	case "copy":
		v := x.copyOp(fr, st, args[0], args[1], rt)
		return &v
	case "delete":
		x.mapDelete(fr, st, args[0], args[1])
		return nil
	case "print", "println":
		return nil
	case "recover":
		v := x.zero(rt)
		return &v
	case "min", "max":
		acc := args[0]
		for _, b := range args[1:] {
			var lt *Term
			if isFloat(acc.T) || isString(acc.T) {
				r := x.freshValue(st, name, rt)
				return &r
			}
			if isSigned(acc.T) {
				lt = BVCmp("bvslt", b.L[0], acc.L[0])
			} else {
				lt = BVCmp("bvult", b.L[0], acc.L[0])
			}
			if name == "max" {
				lt = Not(lt)
				lt = And(lt, Not(Eq(b.L[0], acc.L[0])))
			}
			acc = scalar(rt, Ite(lt, b.L[0], acc.L[0]))
		}
		return &acc
	case "clear":
		x.havocReachable(st, args[0])
		x.c.note("clear() modelled as havoc")
		return nil
	case "ssa:wrapnilchk":
		return &args[0]
	}
	unsup("builtin %s", name)
	return nil
}

func (x *Exec) appendOp(fr *Frame, st *State, s, t Value, rt types.Type) Value {
	stt := rt.Underlying().(*types.Slice)
	et := stt.Elem()
	fam := "arr:" + x.c.elemFamName(et)
	sp := sl(s)
	var tln, toff, tbase *Term
	tIsStr := isString(t.T)
	if tIsStr {
		tln = Apply("str.len", idxSort, t.L[0])
	} else {
		tp := sl(t)
		tln, toff, tbase = tp.ln, tp.off, tp.base
	}
	newLen := BVBin("bvadd", sp.ln, tln)
	fits := BVCmp("bvule", newLen, sp.cp)
	if tln.IsLit && tln.Val.Sign() == 0 {
		// appending nothing: result is s (possibly nil)
		r := s
		r.T = rt
		return r
	}
	nref := x.newRef(st, "append")
	base := Ite(fits, sp.base, nref)
	base = x.define(st, "app_base", base)
	ncap := x.c.Fresh("app_cap", idxSort)
	st.assume(BVCmp("bvuge", ncap, newLen))
	st.assume(BVCmp("bvule", ncap, BVLit64(1<<41, 64)))
	cp := x.define(st, "app_capv", Ite(fits, sp.cp, ncap))
	ls := x.c.leaves(et)
	for j, l := range ls {
		c := x.comp(st, fam, et, j)
		content := Select(c, sp.base)
		var ncontent *Term
		if tln.IsLit && tln.Val.Int64() <= 8 && !tIsStr {
			ncontent = content
			// read t's elements before writing (t may alias s's backing array only beyond len; safe)
			tarr := Select(c, tbase)
			for k := int64(0); k < tln.Val.Int64(); k++ {
				e := Select(tarr, BVBin("bvadd", toff, BVLit64(k, 64)))
				ncontent = Store(ncontent, BVBin("bvadd", BVBin("bvadd", sp.off, sp.ln), BVLit64(k, 64)), e)
			}
		} else {
			na := x.c.Fresh("app_arr", SArr(idxSort, l.S))
			i := Var("i!q", idxSort)
			rel := BVBin("bvsub", i, BVBin("bvadd", sp.off, sp.ln))
			var src *Term
			if tIsStr {
				src = Apply("str.at", SBV(8), t.L[0], rel)
			} else {
				src = Select(Select(c, tbase), BVBin("bvadd", toff, rel))
			}
			body := Eq(Select(na, i), Ite(BVCmp("bvult", rel, tln), src, Select(content, i)))
			st.assume(Quant("forall", []*Term{i}, body, Select(na, i)))
			ncontent = na
		}
		x.setComp(st, fam, et, j, Store(c, base, ncontent))
	}
	return Value{T: rt, L: []*Term{base, sp.off, x.define(st, "app_len", newLen), cp}}
}

func (x *Exec) copyOp(fr *Frame, st *State, d, s Value, rt types.Type) Value {
	dp := sl(d)
	et := d.T.Underlying().(*types.Slice).Elem()
	fam := "arr:" + x.c.elemFamName(et)
	var sln *Term
	sIsStr := isString(s.T)
	if sIsStr {
		sln = Apply("str.len", idxSort, s.L[0])
	} else {
		sln = sl(s).ln
	}
	n := x.define(st, "copy_n", Ite(BVCmp("bvult", dp.ln, sln), dp.ln, sln))
	for j, l := range x.c.leaves(et) {
		c := x.comp(st, fam, et, j)
		content := Select(c, dp.base)
		var ncontent *Term
		if dp.ln.IsLit && dp.ln.Val.Int64() <= 8 && !sIsStr && !n.IsLit {
			// small destination of known length: element-wise, no quantifier
			sarr := Select(c, sl(s).base)
			ncontent = content
			for k := int64(0); k < dp.ln.Val.Int64(); k++ {
				di := BVBin("bvadd", dp.off, BVLit64(k, 64))
				e := Ite(BVCmp("bvult", BVLit64(k, 64), n), Select(sarr, BVBin("bvadd", sl(s).off, BVLit64(k, 64))), Select(content, di))
				ncontent = Store(ncontent, di, e)
			}
		} else if n.IsLit && n.Val.Int64() <= 8 && !sIsStr {
			sarr := Select(c, sl(s).base)
			ncontent = content
			for k := int64(0); k < n.Val.Int64(); k++ {
				ncontent = Store(ncontent, BVBin("bvadd", dp.off, BVLit64(k, 64)), Select(sarr, BVBin("bvadd", sl(s).off, BVLit64(k, 64))))
			}
		} else {
			na := x.c.Fresh("copy_arr", SArr(idxSort, l.S))
			i := Var("i!q", idxSort)
			rel := BVBin("bvsub", i, dp.off)
			var src *Term
			if sIsStr {
				src = Apply("str.at", SBV(8), s.L[0], rel)
			} else {
				src = Select(Select(c, sl(s).base), BVBin("bvadd", sl(s).off, rel))
			}
			body := Eq(Select(na, i), Ite(BVCmp("bvult", rel, n), src, Select(content, i)))
			st.assume(Quant("forall", []*Term{i}, body, Select(na, i)))
			ncontent = na
		}
		x.setComp(st, fam, et, j, Store(c, dp.base, ncontent))
	}
	return scalar(rt, n)
}

// ---------- contract application at call sites ----------

func contractKey(fn *ssa.Function) string {
	if o := fn.Origin(); o != nil {
		fn = o
	}
	s := fn.String()
	return stripTypeArgs(strings.ReplaceAll(s, modulePrefix, ""))
}

// stripTypeArgs removes type parameter / argument lists "[K, V]" so that contracts attach to generic
// functions by their plain name.
func stripTypeArgs(s string) string {
	var sb strings.Builder
	depth := 0
	for _, r := range s {
		switch {
		case r == '[':
			depth++
		case r == ']':
			if depth > 0 {
				depth--
			}
		case depth == 0:
			sb.WriteRune(r)
		}
	}
	return sb.String()
}

func (x *Exec) callContract(fr *Frame, st *State, fn *ssa.Function, fc *FuncContract, args []Value, pos token.Pos) []Outcome {
	x.usedContracts[contractKey(fn)] = true
	pre := st.clone()
	cfr := &Frame{fn: fn, env: map[ssa.Value]Value{}, names: map[string]ssa.Value{}, loopSnap: map[*ssa.BasicBlock]*loopSnap{}, loopIter: map[*ssa.BasicBlock]int{}, fc: fc, entry: pre, args: args, depth: fr.depth + 1}
	for i, p := range fn.Params {
		cfr.env[p] = args[i]
		cfr.names[p.Name()] = p
	}
	x.applyDyn(cfr, st, fc, fr, x.src(fr.fn, pos, "call")+"~"+fn.Name())
	label := fn.Name()
	for _, rq := range fc.Requires {
		v := x.evalSpec(&specScope{x: x, fr: cfr, st: st, old: pre}, rq.Expr)
		if tfc := x.contracts[contractKey(x.top)]; tfc != nil && tfc.AssumeCalleePre {
			x.c.note("in %s the preconditions of contracted callees are assumed, not proved (structural invariants of the caller's state)", x.topName)
		} else {
			x.oblige(fr, st, "pre", x.src(fr.fn, pos, "call")+"~"+label+":"+rq.Label, pos, v.L[0])
		}
		st.assume(v.L[0])
	}
	// frame
	if fc.ModAll {
		x.frameWrite(st, "*", nil)
		x.havocHeap(st) // ghost call counters are invalidated below according to the callee's call graph
	} else {
		for _, m := range fc.Modifies {
			x.havocModifies(cfr, st, pre, m)
		}
	}
	// the callee may have called whatever its static call graph reaches: those entries of the
	// caller's ghost call log are stale (everything, if the callee makes dynamic calls)
	may := x.mayCall(fn)
	if fc.Trusted && !fc.ModAll {
		// a trusted contract is assumed to state the callee's effects completely, the ghost call log included
		may = map[string]bool{}
		x.c.note("assumed: trusted callee %s makes no calls that matter to the ghost call log", shortFuncName(fn))
	}
	ownKey := contractKey(fn)
	ownArgs, hadOwn := st.calls[ownKey]
	ownCount, hadCount := st.ghost["ncalls:"+ownKey]
	selfReach := may != nil && may[ownKey] // (with dynamic calls the callee is assumed not to re-enter itself)
	defer func() {
		if !selfReach {
			if hadOwn {
				st.calls[ownKey] = ownArgs
			}
			if hadCount {
				st.ghost["ncalls:"+ownKey] = ownCount
			}
		}
	}()
	for _, k := range sortedKeys(st.calls) {
		if may == nil || may[k] || may[strings.TrimSuffix(k, "#ret")] {
			delete(st.calls, k)
		}
	}
	for _, k := range sortedKeys(st.ghost) {
		if (strings.HasPrefix(k, "ncalls:") && (may == nil || may[strings.TrimPrefix(k, "ncalls:")])) ||
			(strings.HasPrefix(k, "nok:") && (may == nil || may[strings.TrimPrefix(k, "nok:")])) {
			st.ghost[k] = x.freshCounter(st)
			if st.written != nil {
				if st.written.ghost == nil {
					st.written.ghost = map[string]bool{}
				}
				st.written.ghost[k] = true
			}
		}
	}
	// results
	x.bumpAlloc(st)
	var rets []Value
	res := fn.Signature.Results()
	scope := &specScope{x: x, fr: cfr, st: st, old: pre, results: map[string]Value{}, assumeMode: true}
	for i := 0; i < res.Len(); i++ {
		rv := x.freshValue(st, "r_"+fn.Name(), res.At(i).Type())
		rets = append(rets, rv)
		if n := res.At(i).Name(); n != "" && n != "_" {
			scope.results[n] = rv
		}
		scope.results[fmt.Sprintf("result%d", i)] = rv
		if res.Len() == 1 {
			scope.results["result"] = rv
		}
	}
	if st.calls == nil {
		st.calls = map[string][]Value{}
	}
	st.calls[contractKey(fn)+"#ret"] = rets
	for _, en := range fc.Ensures {
		// clauses about the callee's own ghost call log cannot be stated in the caller's scope: skipped
		func() {
			defer func() {
				if p := recover(); p != nil {
					if u, ok := p.(unsupported); ok && strings.Contains(u.msg, "no recorded call") {
						return
					}
					panic(p)
				}
			}()
			v := x.evalSpec(scope, en.Expr)
			st.assume(v.L[0])
		}()
	}
	x.countOK(st, contractKey(fn), rets)
	outs := []Outcome{{St: st, Kind: OutReturn, Rets: rets}}
	return outs
}

// invokeContract applies the (assumed) contract of an interface method at a call site: the implementation
// behind the interface is not verified against it; the contract is part of the trusted base and is listed.
// Parameters are named as in the interface declaration (recv for the receiver).
func (x *Exec) invokeContract(fr *Frame, st *State, name string, c *ssa.CallCommon, fc *FuncContract, recv Value, args []Value, pos token.Pos) []Outcome {
	x.usedContracts[name] = true
	x.c.note("assumed contract of interface method %s (implementations not verified against it)", name)
	pre := st.clone()
	sig := c.Signature()
	bound := map[string]Value{"recv": recv}
	for i := 0; i < sig.Params().Len() && i < len(args); i++ {
		if n := sig.Params().At(i).Name(); n != "" && n != "_" {
			bound[n] = args[i]
		}
		bound[fmt.Sprintf("arg%d", i)] = args[i]
	}
	cfr := &Frame{fn: fr.fn, env: fr.env, names: map[string]ssa.Value{}, loopSnap: map[*ssa.BasicBlock]*loopSnap{}, loopIter: map[*ssa.BasicBlock]int{}, fc: fc, entry: pre, depth: fr.depth + 1}
	for _, rq := range fc.Requires {
		v := x.evalSpec(&specScope{x: x, fr: cfr, st: st, old: pre, bound: bound}, rq.Expr)
		x.oblige(fr, st, "pre", x.src(fr.fn, pos, "invoke")+"~"+c.Method.Name()+":"+rq.Label, pos, v.L[0])
		st.assume(v.L[0])
	}
	if fc.ModAll {
		x.frameWrite(st, "*", nil)
		x.havocHeap(st)
		for _, k := range sortedKeys(st.calls) {
			if k != name && k != name+"#ret" {
				delete(st.calls, k)
			}
		}
		for _, k := range sortedKeys(st.ghost) {
			if (strings.HasPrefix(k, "ncalls:") && k != "ncalls:"+name) || (strings.HasPrefix(k, "nok:") && k != "nok:"+name) {
				st.ghost[k] = x.freshCounter(st)
			}
		}
	} else if len(fc.Modifies) > 0 {
		unsup("interface method contract %s: only 'modifies *' or no modifies clause is supported", name)
	}
	x.bumpAlloc(st)
	var rets []Value
	res := sig.Results()
	scope := &specScope{x: x, fr: cfr, st: st, old: pre, results: map[string]Value{}, bound: bound, assumeMode: true}
	for i := 0; i < res.Len(); i++ {
		rv := x.freshValue(st, "r_"+c.Method.Name(), res.At(i).Type())
		rets = append(rets, rv)
		if n := res.At(i).Name(); n != "" && n != "_" {
			scope.results[n] = rv
		}
		scope.results[fmt.Sprintf("result%d", i)] = rv
		if res.Len() == 1 {
			scope.results["result"] = rv
		}
	}
	if st.calls == nil {
		st.calls = map[string][]Value{}
	}
	st.calls[name+"#ret"] = rets
	for _, en := range fc.Ensures {
		v := x.evalSpec(scope, en.Expr)
		st.assume(v.L[0])
	}
	x.countOK(st, name, rets)
	return []Outcome{{St: st, Kind: OutReturn, Rets: rets}}
}

// countOK maintains the ghost counter nok:<name>: the number of calls so far whose last result was a nil
// error (or true, for a boolean last result) -- "successful" calls.
func (x *Exec) countOK(st *State, name string, rets []Value) {
	if len(rets) == 0 {
		return
	}
	last := rets[len(rets)-1]
	var ok *Term
	switch {
	case len(last.L) == 2 && types.IsInterface(last.T):
		ok = Eq(last.L[0], IntLit(0))
	case len(last.L) == 1 && last.L[0].S == SBool:
		ok = last.L[0]
	default:
		return
	}
	if len(rets) >= 2 {
		if first := rets[0]; len(first.L) == 1 && first.L[0].S == SBool {
			ok = And(ok, first.L[0]) // (bool, error): successful means (true, nil)
		}
	}
	k := "nok:" + name
	cur, has := st.ghost[k]
	if !has {
		cur = BVLit64(0, 64)
	}
	st.ghost[k] = x.define(st, "nok", Ite(ok, BVBin("bvadd", cur, BVLit64(1, 64)), cur))
	if st.written != nil {
		if st.written.ghost == nil {
			st.written.ghost = map[string]bool{}
		}
		st.written.ghost[k] = true
	}
}

// mayCall returns the call-log names of the functions transitively reachable from fn through static
// calls, or nil if fn (transitively) makes a dynamic call and may therefore reach anything.
func (x *Exec) mayCall(fn *ssa.Function) map[string]bool {
	if x.mayCallMemo == nil {
		x.mayCallMemo = map[*ssa.Function]map[string]bool{}
		x.mayCallAll = map[*ssa.Function]bool{}
	}
	if x.mayCallAll[fn] {
		return nil
	}
	if m, ok := x.mayCallMemo[fn]; ok {
		return m
	}
	out := map[string]bool{}
	seen := map[*ssa.Function]bool{}
	all := false
	var walk func(f *ssa.Function)
	walk = func(f *ssa.Function) {
		if seen[f] || all {
			return
		}
		seen[f] = true
		for _, b := range f.Blocks {
			for _, ins := range b.Instrs {
				switch t := ins.(type) {
				case *ssa.Send:
					out["send:"+typeName(t.X.Type())] = true
				case ssa.CallInstruction:
					c := t.Common()
					if _, isB := c.Value.(*ssa.Builtin); isB {
						continue
					}
					if c.IsInvoke() {
						iname := ""
						if c.Value.Type() != nil {
							iname = "(" + typeName(c.Value.Type()) + ")." + c.Method.Name()
							out[iname] = true
						}
						if ifc := x.contracts[iname]; ifc != nil && !ifc.ModAll {
							// an interface method with an assumed contract: the contract is taken to state its
							// effects completely (no call back into the functions whose calls are being counted)
							continue
						}
						if !isBenignIface(c.Value.Type()) {
							all = true
						}
						continue
					}
					callee := c.StaticCallee()
					if callee == nil {
						if mc, ok := c.Value.(*ssa.MakeClosure); ok {
							walk(mc.Fn.(*ssa.Function))
							continue
						}
						all = true
						continue
					}
					full := callee.String()
					if o := callee.Origin(); o != nil {
						full = o.String()
					}
					out[strings.ReplaceAll(full, modulePrefix, "")] = true
					if tfc := x.contracts[contractKey(callee)]; tfc != nil && tfc.Trusted && !tfc.ModAll {
						// a trusted contract is assumed to state the callee's effects completely (frame and
						// ghost call log): its body is not searched for further calls
						x.c.note("assumed: trusted callee %s makes no calls that matter to the ghost call log", shortFuncName(callee))
						continue
					}
					if inModule(callee) && !isNoEffect(callee) {
						walk(callee)
					}
				}
			}
		}
	}
	walk(fn)
	if all {
		x.mayCallAll[fn] = true
		return nil
	}
	x.mayCallMemo[fn] = out
	return out
}

// isBenignIface: interface types whose methods cannot call back into the module (library leaf interfaces).
func isBenignIface(T types.Type) bool {
	if n, ok := T.(*types.Named); ok && n.Obj().Pkg() != nil {
		p := n.Obj().Pkg().Path()
		for _, pre := range noEffectPkgs {
			if p == pre || strings.HasPrefix(p, pre) {
				return true
			}
		}
	}
	switch typeName(T) {
	case "error", "io.Reader", "io.Writer", "crypto/cipher.AEAD", "crypto/cipher.Block", "hash.Hash", "fmt.Stringer", "context.Context":
		return true
	}
	return false
}

// havocModifies havocs the memory named by a modifies target expression evaluated in the callee scope.
func (x *Exec) havocModifies(cfr *Frame, st *State, pre *State, target Expr) {
	// targets: "*p" / "p.f" (object pointed by p), "s[..]" (backing array of slice s), "comp:<family>" (whole component family)
	if id, ok := target.(*EIdent); ok && strings.HasPrefix(id.Name, "fam_") {
		fam := strings.TrimPrefix(id.Name, "fam_")
		for _, k := range sortedHeapKeys(st.heap) {
			if strings.Contains(sanitize(k), fam) {
				x.havocComp(st, k)
			}
		}
		return
	}
	v := x.evalSpec(&specScope{x: x, fr: cfr, st: pre, old: pre}, target)
	if c, ok := target.(*ECall); ok && c.Fun == "dyn" && len(c.Args) == 2 && len(v.L) > 0 && v.L[0] != nil {
		// modifies dyn(x, "T"): only if x really holds a T; otherwise nothing (the havoc is redirected
		// to a fresh, unreachable object)
		iv := x.evalSpec(&specScope{x: x, fr: cfr, st: pre, old: pre}, c.Args[0])
		if lit, ok := c.Args[1].(*ELit); ok {
			if T := x.specType(&specScope{x: x, fr: cfr, st: pre, old: pre}, lit.Text); T != nil && len(iv.L) == 2 {
				is := Eq(iv.L[0], IntLit(int64(x.c.typeTag(T))))
				v.L = append([]*Term{}, v.L...)
				v.L[0] = x.define(st, "modref", Ite(is, v.L[0], x.newRef(st, "nomod")))
			}
		}
	}
	// an entry reached through a nil pointer denotes nothing (see specDefined): the havoc goes to a fresh,
	// unreachable object instead of whatever a field read at the nil reference would name
	if def := x.specDefined(&specScope{x: x, fr: cfr, st: pre, old: pre}, target); def != True && len(v.L) > 0 && v.L[0] != nil {
		switch v.T.Underlying().(type) {
		case *types.Pointer, *types.Map, *types.Slice:
			v.L = append([]*Term{}, v.L...)
			v.L[0] = x.define(st, "modref", Ite(def, v.L[0], x.newRef(st, "nomod")))
		}
	}
	x.havocReachable(st, v)
}

func (x *Exec) applyDyn(fr *Frame, st *State, fc *FuncContract, caller *Frame, where string) {
	for _, pname := range sortedKeys(fc.Dyn) {
		tname := fc.Dyn[pname]
		var v Value
		if sv, ok := fr.names[pname]; ok {
			v = fr.env[sv]
		} else {
			// an expression such as ds.Reader (an interface-typed field)
			e, err := ParseExpr(pname)
			if err != nil {
				unsup("dyn: %v", err)
			}
			v = x.evalSpec(&specScope{x: x, fr: fr, st: st, old: st}, e)
		}
		if len(v.L) != 2 {
			unsup("dyn: %s is not an interface value", pname)
		}
		T := x.lookupType(tname)
		if T == nil {
			unsup("dyn: unknown type %s", tname)
		}
		id := x.c.typeTag(T)
		cond := And(Eq(v.L[0], IntLit(int64(id))), Not(Eq(v.L[1], IntLit(0))))
		if caller != nil {
			// at a call site the dynamic type is a precondition to establish
			x.oblige(caller, st, "pre", where+":dyn_"+pname, token.NoPos, cond)
		}
		st.assume(cond)
		x.dynTags[v.L[0].String()] = id
	}
}

// lookupType resolves "pkg.Name" or "*pkg.Name" among the loaded packages.
func (x *Exec) lookupType(name string) types.Type {
	ptr := false
	if strings.HasPrefix(name, "*") {
		ptr = true
		name = name[1:]
	}
	i := strings.LastIndex(name, ".")
	if i < 0 {
		return nil
	}
	pkgName, tn := name[:i], name[i+1:]
	for _, p := range x.prog.AllPackages() {
		if p.Pkg.Path() == pkgName || p.Pkg.Path() == modulePrefix+pkgName || p.Pkg.Name() == pkgName {
			if o := p.Pkg.Scope().Lookup(tn); o != nil {
				if _, ok := o.(*types.TypeName); ok {
					if ptr {
						return types.NewPointer(o.Type())
					}
					return o.Type()
				}
			}
		}
	}
	return nil
}
