package vc

import (
	"fmt"
	"go/token"
	"go/types"
	"os"
	"path/filepath"
	"sort"
	"strings"
	"time"

	"golang.org/x/tools/go/packages"
	"golang.org/x/tools/go/ssa"
	"golang.org/x/tools/go/ssa/ssautil"
)

var RepoDir = "/repo"

type Loaded struct {
	Pkgs  []*packages.Package
	Prog  *ssa.Program
	SSA   []*ssa.Package
	Fset  *token.FileSet
	Funcs map[string]*ssa.Function // contractKey -> function
	Dur   time.Duration
}

func Load(patterns []string) (*Loaded, error) {
	t0 := time.Now()
	cfg := &packages.Config{Mode: packages.LoadAllSyntax, Dir: RepoDir, BuildFlags: []string{"-tags=verif"},
		Env: append(os.Environ(), "GOFLAGS=-mod=mod", "GOPROXY=off", "GOSUMDB=off", "GOTOOLCHAIN=local")}
	pkgs, err := packages.Load(cfg, patterns...)
	if err != nil {
		return nil, err
	}
	for _, p := range pkgs {
		for _, e := range p.Errors {
			return nil, fmt.Errorf("package %s: %v", p.PkgPath, e)
		}
	}
	prog, sp := ssautil.AllPackages(pkgs, ssa.InstantiateGenerics|ssa.GlobalDebug)
	prog.Build()
	l := &Loaded{Pkgs: pkgs, Prog: prog, SSA: sp, Fset: pkgs[0].Fset, Funcs: map[string]*ssa.Function{}}
	for fn := range ssautil.AllFunctions(prog) {
		if inModule(fn) {
			k := contractKey(fn)
			// generic functions: verify an instantiation (the generic body itself has type parameters);
			// among instances the lexically smallest name wins, for determinism
			if old, ok := l.Funcs[k]; ok {
				// an instance whose type arguments still mention type parameters (created inside another
				// generic body) is as unusable as the generic body itself
				oldGeneric := old.TypeParams().Len() > 0 && (len(old.TypeArgs()) == 0 || hasTypeParamArg(old))
				newGeneric := fn.TypeParams().Len() > 0 && (len(fn.TypeArgs()) == 0 || hasTypeParamArg(fn))
				if newGeneric || (!oldGeneric && old.String() <= fn.String()) {
					continue
				}
			}
			l.Funcs[k] = fn
		}
	}
	l.Dur = time.Since(t0)
	return l, nil
}

func hasTypeParamArg(fn *ssa.Function) bool {
	for _, ta := range fn.TypeArgs() {
		if mentionsTypeParam(ta, 0) {
			return true
		}
	}
	return false
}

func mentionsTypeParam(t types.Type, depth int) bool {
	if depth > 6 {
		return false
	}
	switch u := t.(type) {
	case *types.TypeParam:
		return true
	case *types.Named:
		if ta := u.TypeArgs(); ta != nil {
			for i := 0; i < ta.Len(); i++ {
				if mentionsTypeParam(ta.At(i), depth+1) {
					return true
				}
			}
		}
		return false
	case *types.Pointer:
		return mentionsTypeParam(u.Elem(), depth+1)
	case *types.Slice:
		return mentionsTypeParam(u.Elem(), depth+1)
	case *types.Array:
		return mentionsTypeParam(u.Elem(), depth+1)
	case *types.Map:
		return mentionsTypeParam(u.Key(), depth+1) || mentionsTypeParam(u.Elem(), depth+1)
	}
	return false
}

// LoadContracts reads verif_contracts.go of every loaded in-module package (initial + deps).
func (l *Loaded) LoadContracts() (map[string]*FuncContract, *SpecEnv, []*Lemma, []string, error) {
	contracts := map[string]*FuncContract{}
	specs := &SpecEnv{Funcs: map[string]*SpecFunc{}}
	var lemmas []*Lemma
	var files []string
	seen := map[string]bool{}
	var visit func(p *packages.Package) error
	visit = func(p *packages.Package) error {
		if seen[p.PkgPath] {
			return nil
		}
		seen[p.PkgPath] = true
		if strings.HasPrefix(p.PkgPath, modulePrefix) && len(p.GoFiles) > 0 {
			dir := filepath.Dir(p.GoFiles[0])
			path := filepath.Join(dir, "verif_contracts.go")
			if _, err := os.Stat(path); err == nil {
				rel := strings.TrimPrefix(p.PkgPath, modulePrefix)
				cf, err := ParseContractFile(path, rel)
				if err != nil {
					return err
				}
				files = append(files, path)
				for _, fc := range cf.Funcs {
					if _, dup := contracts[fc.Key]; dup {
						return fmt.Errorf("%s: duplicate contract for %s", path, fc.Key)
					}
					contracts[fc.Key] = fc
				}
				for _, sf := range cf.Specs {
					specs.Funcs[sf.Name] = sf
				}
				lemmas = append(lemmas, cf.Lemmas...)
			}
		}
		for _, imp := range p.Imports {
			if err := visit(imp); err != nil {
				return err
			}
		}
		return nil
	}
	for _, p := range l.Pkgs {
		if err := visit(p); err != nil {
			return nil, nil, nil, nil, err
		}
	}
	sort.Strings(files)
	return contracts, specs, lemmas, files, nil
}

func (l *Loaded) Engine() (*Engine, error) {
	contracts, specs, lemmas, _, err := l.LoadContracts()
	if err != nil {
		return nil, err
	}
	return &Engine{Prog: l.Prog, Fset: l.Fset, Contracts: contracts, Specs: specs, Lemmas: lemmas, Models: DefaultModels(), InlineExt: defaultInlineExt(), MaxPaths: 4096, MaxInline: 4}, nil
}

// CmdGen: debugging entry point: generate and discharge the VCs of functions matching a suffix.
func CmdGen(pkgs, fnSuffix, dump string, dbg bool, nopanic bool) int {
	SetDebugPanics(dbg)
	l, err := Load(strings.Split(pkgs, ","))
	if err != nil {
		fmt.Fprintln(os.Stderr, "load:", err)
		return 2
	}
	fmt.Printf("loaded in %.1fs, %d in-module functions\n", l.Dur.Seconds(), len(l.Funcs))
	e, err := l.Engine()
	if err != nil {
		fmt.Fprintln(os.Stderr, "contracts:", err)
		return 2
	}
	var keys []string
	for k := range l.Funcs {
		if strings.HasSuffix(k, fnSuffix) {
			keys = append(keys, k)
		}
	}
	sort.Strings(keys)
	for _, k := range keys {
		fn := l.Funcs[k]
		fc := e.Contracts[k]
		if fc == nil {
			fc = &FuncContract{Key: k, NoPanic: nopanic, ModAll: true, Loops: map[int]*LoopContract{}, Dyn: map[string]string{}}
		}
		fr := e.GenVCs(fn, fc)
		fmt.Printf("== %s (%s): %d obligations, %d paths, %d instrs, gen %.2fs\n", k, fr.Pos, len(fr.Obligations), fr.Paths, fr.Instrs, fr.GenTime.Seconds())
		if fr.Unsupported != "" {
			fmt.Printf("   UNSUPPORTED: %s\n", fr.Unsupported)
		}
		rs := Discharge(fr, DischargeOpts{QuickTimeout: 6, FullTimeout: 120, Workers: 16})
		for _, r := range rs {
			extra := ""
			if r.Trivial {
				extra = " (trivial)"
			}
			fmt.Printf("   %-8s %-60s insts=%d %s %.2fs%s\n", r.Verdict, r.Name, r.Insts, r.Solver, r.Dur.Seconds(), extra)
			if dump != "" && strings.Contains(r.Name, dump) && r.Script != "" {
				os.WriteFile("/tmp/vcheck_dump.smt2", []byte(r.Script), 0o644)
				fmt.Println("   dumped failing script to /tmp/vcheck_dump.smt2")
			}
		}
		for _, n := range sortedNotes(fr.Exec.c.Notes) {
			fmt.Println("   note:", n)
		}
	}
	return 0
}


// defaultInlineExt lists library functions whose real bodies are executed symbolically (inlined)
// instead of being abstracted: small, loop-free, pure-Go code.
func defaultInlineExt() map[string]bool {
	m := map[string]bool{}
	for _, n := range []string{"bytes.NewBuffer", "(*bytes.Buffer).Read", "(*bytes.Buffer).ReadByte", "(*bytes.Buffer).Len", "(*bytes.Buffer).empty", "(*bytes.Buffer).Reset",
		"bytes.NewReader", "(*bytes.Reader).Read", "(*bytes.Reader).ReadByte", "(*bytes.Reader).Len", "(*bytes.Reader).Size",
		"(encoding/binary.littleEndian).Uint16", "(encoding/binary.littleEndian).Uint32", "(encoding/binary.littleEndian).Uint64",
		"(encoding/binary.littleEndian).PutUint16", "(encoding/binary.littleEndian).PutUint32", "(encoding/binary.littleEndian).PutUint64",
		"(encoding/binary.bigEndian).Uint16", "(encoding/binary.bigEndian).Uint32", "(encoding/binary.bigEndian).Uint64",
		"(encoding/binary.bigEndian).PutUint16", "(encoding/binary.bigEndian).PutUint32", "(encoding/binary.bigEndian).PutUint64",
		"math/bits.TrailingZeros32", "math/bits.LeadingZeros32", "math/bits.Len32", "math/bits.LeadingZeros64", "math/bits.Len64", "math/bits.TrailingZeros64",
	} {
		m[n] = true
	}
	return m
}
