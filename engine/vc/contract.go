package vc

import (
	"fmt"
	"os"
	"strconv"
	"strings"
	"unicode"
)

// ---------- contract file model ----------

type Clause struct {
	Label string
	Expr  Expr
	Src   string
}

type GuardClause struct {
	Lock Expr
	Objs []Expr
	Src  string
}

type SendClause struct {
	Type string
	Clause
}

type LoopContract struct {
	Invariants []Clause
	Steps      []Clause // checked at the back edge; prev(e) is e at the head of the iteration just executed
	Decreases  *Clause
	Unroll     int
}

type FuncContract struct {
	Key           string
	File          string
	Requires      []Clause
	Ensures       []Clause
	PanicsWhen    []Clause
	Loops         map[int]*LoopContract
	Dyn           map[string]string
	Modifies      []Expr
	ModAll        bool
	NoPanic       bool
	Trusted       bool
	Inline        bool
	CheckOverflow bool
	CheckConv     bool
	CheckLocks    bool
	AllocBound    *Clause
	AssumeCalleePre bool
	OnSend        []SendClause
	OnCall        []SendClause
	Guarded       []GuardClause
	Wraps         []string
	Lock          []string
	Props         []string // property ids this contract serves
	Unroll        int
	Assumes       []Clause
	MaxInline     int
	WriteRules    []WriteRule
}

// WriteRule: `writes <type> [except <field>,...] [label] <pred>` — every write the function makes (directly or through
// inlined callees) to an object of that type (a pointee `*T`, or the backing array of a `[]E`) must hit an object
// allocated during the call or one for which pred holds at the time of the write (`it` names the object).
type WriteRule struct {
	Type   string
	Except []string
	Label  string
	Expr   Expr
}

type SpecFunc struct {
	Name   string
	Params []QVar
	Ret    string
	Body   Expr
}

type Lemma struct {
	Name string
	Expr Expr
	Src  string
}

type ContractFile struct {
	Pkg    string // package path relative to module
	Funcs  []*FuncContract
	Specs  []*SpecFunc
	Lemmas []*Lemma
}

type SpecEnv struct {
	Funcs map[string]*SpecFunc
}

// ParseContractFile parses the //@ lines of a verif_contracts.go file.
func ParseContractFile(path, pkgRel string) (*ContractFile, error) {
	b, err := os.ReadFile(path)
	if err != nil {
		return nil, err
	}
	cf := &ContractFile{Pkg: pkgRel}
	var cur *FuncContract
	lines := strings.Split(string(b), "\n")
	for ln := 0; ln < len(lines); ln++ {
		line := strings.TrimSpace(lines[ln])
		if !strings.HasPrefix(line, "//@") {
			continue
		}
		body := strings.TrimSpace(strings.TrimPrefix(line, "//@"))
		// continuation lines: "//@ |" prefix
		for ln+1 < len(lines) {
			nx := strings.TrimSpace(lines[ln+1])
			if strings.HasPrefix(nx, "//@ |") || strings.HasPrefix(nx, "//@|") {
				body += " " + strings.TrimSpace(strings.TrimPrefix(strings.TrimPrefix(nx, "//@"), " |"))
				body = strings.Replace(body, " | ", " ", 1)
				ln++
			} else {
				break
			}
		}
		if body == "" || strings.HasPrefix(body, "#") {
			continue
		}
		where := fmt.Sprintf("%s:%d", path, ln+1)
		word, rest := splitWord(body)
		fail := func(e error) error { return fmt.Errorf("%s: %v", where, e) }
		switch word {
		case "func":
			cur = &FuncContract{Key: expandFuncKey(pkgRel, strings.TrimSpace(rest)), File: path, Loops: map[int]*LoopContract{}, Dyn: map[string]string{}}
			cf.Funcs = append(cf.Funcs, cur)
		case "spec":
			sf, err := parseSpecFunc(rest)
			if err != nil {
				return nil, fail(err)
			}
			cf.Specs = append(cf.Specs, sf)
		case "lemma":
			i := strings.Index(rest, ":")
			if i < 0 {
				return nil, fail(fmt.Errorf("lemma needs name: expr"))
			}
			e, err := ParseExpr(rest[i+1:])
			if err != nil {
				return nil, fail(err)
			}
			cf.Lemmas = append(cf.Lemmas, &Lemma{Name: strings.TrimSpace(rest[:i]), Expr: e, Src: strings.TrimSpace(rest[i+1:])})
		default:
			if cur == nil {
				return nil, fail(fmt.Errorf("clause %q outside func", word))
			}
			if err := parseClause(cur, word, rest); err != nil {
				return nil, fail(err)
			}
		}
	}
	return cf, nil
}

func splitWord(s string) (string, string) {
	s = strings.TrimSpace(s)
	i := strings.IndexFunc(s, unicode.IsSpace)
	if i < 0 {
		return s, ""
	}
	return s[:i], strings.TrimSpace(s[i:])
}

func expandFuncKey(pkg, name string) string {
	// "decodeHeader" -> pkg.decodeHeader ; "(*Node).Encode" -> (*pkg.Node).Encode ; "(T).m" -> (pkg.T).m
	if strings.HasPrefix(name, "(") {
		i := strings.Index(name, ")")
		recv := name[1:i]
		star := ""
		if strings.HasPrefix(recv, "*") {
			star = "*"
			recv = recv[1:]
		}
		if !strings.Contains(recv, ".") && !strings.Contains(recv, "/") {
			recv = pkg + "." + recv
		}
		return "(" + star + recv + ")" + name[i+1:]
	}
	if strings.Contains(name, "/") || (strings.Contains(name, ".") && !strings.Contains(name, "$")) {
		return name
	}
	return pkg + "." + name
}

func labelled(rest string) (string, string) {
	rest = strings.TrimSpace(rest)
	if strings.HasPrefix(rest, "[") {
		i := strings.Index(rest, "]")
		if i > 0 {
			return rest[1:i], strings.TrimSpace(rest[i+1:])
		}
	}
	return "", rest
}

func parseClause(fc *FuncContract, word, rest string) error {
	mk := func(def string) (Clause, error) {
		lab, src := labelled(rest)
		if lab == "" {
			lab = def
		}
		e, err := ParseExpr(src)
		if err != nil {
			return Clause{}, err
		}
		return Clause{Label: lab, Expr: e, Src: src}, nil
	}
	switch word {
	case "requires":
		c, err := mk(fmt.Sprintf("pre%d", len(fc.Requires)+1))
		if err != nil {
			return err
		}
		fc.Requires = append(fc.Requires, c)
	case "ensures":
		c, err := mk(fmt.Sprintf("post%d", len(fc.Ensures)+1))
		if err != nil {
			return err
		}
		fc.Ensures = append(fc.Ensures, c)
	case "assume":
		c, err := mk(fmt.Sprintf("assume%d", len(fc.Assumes)+1))
		if err != nil {
			return err
		}
		fc.Assumes = append(fc.Assumes, c)
	case "panics_when":
		c, err := mk(fmt.Sprintf("panic%d", len(fc.PanicsWhen)+1))
		if err != nil {
			return err
		}
		fc.PanicsWhen = append(fc.PanicsWhen, c)
	case "loop":
		nstr, r2 := splitWord(rest)
		n, err := strconv.Atoi(nstr)
		if err != nil {
			return fmt.Errorf("loop ordinal: %v", err)
		}
		kind, r3 := splitWord(r2)
		lc := fc.Loops[n]
		if lc == nil {
			lc = &LoopContract{}
			fc.Loops[n] = lc
		}
		if kind == "unroll" {
			k, err := strconv.Atoi(strings.TrimSpace(r3))
			if err != nil {
				return err
			}
			lc.Unroll = k
			return nil
		}
		lab, src := labelled(r3)
		e, err := ParseExpr(src)
		if err != nil {
			return err
		}
		switch kind {
		case "invariant":
			if lab == "" {
				lab = fmt.Sprintf("inv%d", len(lc.Invariants)+1)
			}
			lc.Invariants = append(lc.Invariants, Clause{Label: lab, Expr: e, Src: src})
		case "step":
			if lab == "" {
				lab = fmt.Sprintf("step%d", len(lc.Steps)+1)
			}
			lc.Steps = append(lc.Steps, Clause{Label: lab, Expr: e, Src: src})
		case "decreases":
			if lab == "" {
				lab = "decreases"
			}
			lc.Decreases = &Clause{Label: lab, Expr: e, Src: src}
		default:
			return fmt.Errorf("loop clause kind %q", kind)
		}
	case "dyn":
		p, t := splitWord(rest)
		fc.Dyn[p] = t
	case "modifies":
		if strings.TrimSpace(rest) == "*" {
			fc.ModAll = true
			return nil
		}
		for _, part := range splitTop(rest, ',') {
			e, err := ParseExpr(part)
			if err != nil {
				return err
			}
			fc.Modifies = append(fc.Modifies, e)
		}
	case "writes":
		ty, r2 := splitWord(rest)
		var except []string
		if w, r3 := splitWord(r2); w == "except" {
			list, r4 := splitWord(r3)
			except = strings.Split(list, ",")
			r2 = r4
		}
		lab, src := labelled(strings.TrimSpace(r2))
		if lab == "" {
			lab = "write_rule"
		}
		e, err := ParseExpr(src)
		if err != nil {
			return err
		}
		fc.WriteRules = append(fc.WriteRules, WriteRule{Type: ty, Except: except, Label: lab, Expr: e})
	case "assume_callee_pre":
		fc.AssumeCalleePre = true
	case "nopanic":
		fc.NoPanic = true
	case "trusted":
		fc.Trusted = true
	case "inline":
		fc.Inline = true
	case "check":
		switch strings.TrimSpace(rest) {
		case "overflow":
			fc.CheckOverflow = true
		case "conv":
			fc.CheckConv = true
		case "locks":
			fc.CheckLocks = true
		default:
			if strings.HasPrefix(strings.TrimSpace(rest), "alloc") {
				lab, src := labelled(strings.TrimSpace(strings.TrimPrefix(strings.TrimSpace(rest), "alloc")))
				if lab == "" {
					lab = "bounded_by_input"
				}
				e, err := ParseExpr(src)
				if err != nil {
					return err
				}
				fc.AllocBound = &Clause{Label: lab, Expr: e, Src: src}
				return nil
			}
			return fmt.Errorf("check %q", rest)
		}
	case "guarded":
		// guarded <lock holder> : <object>, <object> ...   — the objects (maps, pointees) may be read only
		// with the lock held (read or write) and written only with the write lock held
		i := strings.Index(rest, ":")
		if i < 0 {
			return fmt.Errorf("guarded needs 'lock : objects'")
		}
		le, err := ParseExpr(rest[:i])
		if err != nil {
			return err
		}
		g := GuardClause{Lock: le, Src: strings.TrimSpace(rest)}
		for _, part := range splitTop(rest[i+1:], ',') {
			e, err := ParseExpr(part)
			if err != nil {
				return err
			}
			g.Objs = append(g.Objs, e)
		}
		fc.Guarded = append(fc.Guarded, g)
	case "oncall":
		// oncall <callee> [label] expr — asserted at every call the function under contract makes directly
		// to <callee>; the arguments are arg0, arg1, ... (receiver first)
		tn, r2 := splitWord(rest)
		lab, src := labelled(r2)
		if lab == "" {
			lab = fmt.Sprintf("call%d", len(fc.OnCall)+1)
		}
		e, err := ParseExpr(src)
		if err != nil {
			return err
		}
		fc.OnCall = append(fc.OnCall, SendClause{Type: tn, Clause: Clause{Label: lab, Expr: e, Src: src}})
	case "onsend":
		// onsend <ElemType> [label] expr   — asserted at every channel send of that element type; the sent value is `msg`
		tn, r2 := splitWord(rest)
		lab, src := labelled(r2)
		if lab == "" {
			lab = fmt.Sprintf("send%d", len(fc.OnSend)+1)
		}
		e, err := ParseExpr(src)
		if err != nil {
			return err
		}
		fc.OnSend = append(fc.OnSend, SendClause{Type: tn, Clause: Clause{Label: lab, Expr: e, Src: src}})
	case "wraps":
		fc.Wraps = append(fc.Wraps, strings.TrimSpace(rest))
	case "props":
		fc.Props = append(fc.Props, strings.Fields(strings.ReplaceAll(rest, ",", " "))...)
	case "unroll":
		n, err := strconv.Atoi(strings.TrimSpace(rest))
		if err != nil {
			return err
		}
		fc.Unroll = n
	case "maxinline":
		n, err := strconv.Atoi(strings.TrimSpace(rest))
		if err != nil {
			return err
		}
		fc.MaxInline = n
	case "guarded_by", "lock":
		fc.Lock = append(fc.Lock, rest)
	default:
		return fmt.Errorf("unknown clause %q", word)
	}
	return nil
}

func splitTop(s string, sep byte) []string {
	var out []string
	depth := 0
	last := 0
	for i := 0; i < len(s); i++ {
		switch s[i] {
		case '(', '[':
			depth++
		case ')', ']':
			depth--
		default:
			if s[i] == sep && depth == 0 {
				out = append(out, s[last:i])
				last = i + 1
			}
		}
	}
	out = append(out, s[last:])
	return out
}

func parseSpecFunc(rest string) (*SpecFunc, error) {
	// func name(a T, b T) T = expr
	w, r := splitWord(rest)
	if w != "func" {
		return nil, fmt.Errorf("expected 'spec func'")
	}
	i := strings.Index(r, "(")
	j := matchParen(r, i)
	if i < 0 || j < 0 {
		return nil, fmt.Errorf("spec func: bad parameter list")
	}
	sf := &SpecFunc{Name: strings.TrimSpace(r[:i])}
	for _, p := range splitTop(r[i+1:j], ',') {
		p = strings.TrimSpace(p)
		if p == "" {
			continue
		}
		n, t := splitWord(p)
		sf.Params = append(sf.Params, QVar{Name: n, Type: t})
	}
	after := strings.TrimSpace(r[j+1:])
	k := strings.Index(after, "=")
	if k < 0 {
		// no body: an uninterpreted function (an abstraction named by the contracts; the only facts known
		// about it are those that trusted contracts and lemmas state)
		sf.Ret = after
		if sf.Ret == "" {
			return nil, fmt.Errorf("spec func: missing result type")
		}
		return sf, nil
	}
	sf.Ret = strings.TrimSpace(after[:k])
	e, err := ParseExpr(after[k+1:])
	if err != nil {
		return nil, err
	}
	sf.Body = e
	return sf, nil
}

func matchParen(s string, i int) int {
	if i < 0 {
		return -1
	}
	d := 0
	for k := i; k < len(s); k++ {
		switch s[k] {
		case '(':
			d++
		case ')':
			d--
			if d == 0 {
				return k
			}
		}
	}
	return -1
}

// ---------- expression AST ----------

type Expr interface{}

type EIdent struct{ Name string }
type ELit struct {
	Kind string // int, bool, nil, string
	Text string
}
type EUn struct {
	Op string
	X  Expr
}
type EBin struct {
	Op   string
	X, Y Expr
}
type ECall struct {
	Fun  string
	Args []Expr
}
type ESel struct {
	X    Expr
	Name string
}
type EIndex struct{ X, I Expr }
type ESlice struct{ X, Lo, Hi Expr }
type QVar struct{ Name, Type string }
type EQuant struct {
	Q    string
	Vars []QVar
	Body Expr
}

// ---------- lexer ----------

type tok struct {
	k string // id, int, str, op, eof
	s string
}

func lex(s string) ([]tok, error) {
	var out []tok
	i := 0
	ops := []string{"<==>", "==>", "<<", ">>", "&^", "&&", "||", "==", "!=", "<=", ">=", "::", "+", "-", "*", "/", "%", "&", "|", "^", "<", ">", "!", "(", ")", "[", "]", ",", ".", ":", "?"}
	for i < len(s) {
		c := s[i]
		switch {
		case c == ' ' || c == '\t':
			i++
		case unicode.IsLetter(rune(c)) || c == '_':
			j := i
			for j < len(s) && (unicode.IsLetter(rune(s[j])) || unicode.IsDigit(rune(s[j])) || s[j] == '_' || s[j] == '$') {
				j++
			}
			out = append(out, tok{"id", s[i:j]})
			i = j
		case unicode.IsDigit(rune(c)):
			j := i
			for j < len(s) && (unicode.IsDigit(rune(s[j])) || unicode.IsLetter(rune(s[j])) || s[j] == '_') {
				j++
			}
			out = append(out, tok{"int", strings.ReplaceAll(s[i:j], "_", "")})
			i = j
		case c == '"':
			j := i + 1
			for j < len(s) && s[j] != '"' {
				if s[j] == '\\' {
					j++
				}
				j++
			}
			if j >= len(s) {
				return nil, fmt.Errorf("unterminated string")
			}
			u, err := strconv.Unquote(s[i : j+1])
			if err != nil {
				return nil, err
			}
			out = append(out, tok{"str", u})
			i = j + 1
		default:
			matched := false
			for _, op := range ops {
				if strings.HasPrefix(s[i:], op) {
					out = append(out, tok{"op", op})
					i += len(op)
					matched = true
					break
				}
			}
			if !matched {
				return nil, fmt.Errorf("unexpected character %q in %q", c, s)
			}
		}
	}
	out = append(out, tok{"eof", ""})
	return out, nil
}

type parser struct {
	t []tok
	i int
}

func (p *parser) peek() tok { return p.t[p.i] }
func (p *parser) next() tok { t := p.t[p.i]; p.i++; return t }
func (p *parser) accept(op string) bool {
	if p.peek().k == "op" && p.peek().s == op {
		p.i++
		return true
	}
	return false
}
func (p *parser) expect(op string) error {
	if !p.accept(op) {
		return fmt.Errorf("expected %q, found %q", op, p.peek().s)
	}
	return nil
}

func ParseExpr(s string) (Expr, error) {
	ts, err := lex(s)
	if err != nil {
		return nil, err
	}
	p := &parser{t: ts}
	e, err := p.expr(0)
	if err != nil {
		return nil, fmt.Errorf("%v in %q", err, strings.TrimSpace(s))
	}
	if p.peek().k != "eof" {
		return nil, fmt.Errorf("trailing %q in %q", p.peek().s, strings.TrimSpace(s))
	}
	return e, nil
}

var binPrec = map[string]int{
	"<==>": 1, "==>": 2, "||": 3, "&&": 4,
	"==": 5, "!=": 5, "<": 5, "<=": 5, ">": 5, ">=": 5,
	"+": 6, "-": 6, "|": 6, "^": 6,
	"*": 7, "/": 7, "%": 7, "<<": 7, ">>": 7, "&": 7, "&^": 7,
}

func (p *parser) expr(min int) (Expr, error) {
	// quantifiers
	if p.peek().k == "id" && (p.peek().s == "forall" || p.peek().s == "exists") {
		q := p.next().s
		var vars []QVar
		for {
			n := p.next()
			if n.k != "id" {
				return nil, fmt.Errorf("quantifier variable expected")
			}
			ty, err := p.typeName()
			if err != nil {
				return nil, err
			}
			vars = append(vars, QVar{n.s, ty})
			if !p.accept(",") {
				break
			}
		}
		if err := p.expect("::"); err != nil {
			return nil, err
		}
		body, err := p.expr(0)
		if err != nil {
			return nil, err
		}
		return &EQuant{Q: q, Vars: vars, Body: body}, nil
	}
	lhs, err := p.unary()
	if err != nil {
		return nil, err
	}
	for {
		t := p.peek()
		if t.k != "op" {
			break
		}
		prec, ok := binPrec[t.s]
		if !ok || prec < min {
			break
		}
		p.next()
		nextMin := prec + 1
		if t.s == "==>" {
			nextMin = prec // right assoc
		}
		rhs, err := p.expr(nextMin)
		if err != nil {
			return nil, err
		}
		lhs = &EBin{Op: t.s, X: lhs, Y: rhs}
	}
	return lhs, nil
}

func (p *parser) typeName() (string, error) {
	s := ""
	for p.accept("[") {
		if err := p.expect("]"); err != nil {
			return "", err
		}
		s += "[]"
	}
	if p.accept("*") {
		s += "*"
	}
	t := p.next()
	if t.k != "id" {
		return "", fmt.Errorf("type name expected, found %q", t.s)
	}
	s += t.s
	for {
		if p.accept(".") {
			s += "." + p.next().s
		} else if p.accept("/") {
			s += "/" + p.next().s
		} else if p.accept("-") { // import paths such as lru-cache
			s += "-" + p.next().s
		} else {
			break
		}
	}
	return s, nil
}

func (p *parser) unary() (Expr, error) {
	t := p.peek()
	if t.k == "op" {
		switch t.s {
		case "!", "-", "^":
			p.next()
			x, err := p.unary()
			if err != nil {
				return nil, err
			}
			return &EUn{Op: t.s, X: x}, nil
		case "*":
			p.next()
			x, err := p.unary()
			if err != nil {
				return nil, err
			}
			return &EUn{Op: "*", X: x}, nil
		}
	}
	return p.postfix()
}

func (p *parser) postfix() (Expr, error) {
	var e Expr
	t := p.next()
	switch t.k {
	case "int":
		e = &ELit{Kind: "int", Text: t.s}
	case "str":
		e = &ELit{Kind: "string", Text: t.s}
	case "id":
		switch t.s {
		case "true", "false":
			e = &ELit{Kind: "bool", Text: t.s}
		case "nil":
			e = &ELit{Kind: "nil"}
		default:
			e = &EIdent{Name: t.s}
		}
	case "op":
		if t.s == "(" {
			x, err := p.expr(0)
			if err != nil {
				return nil, err
			}
			if err := p.expect(")"); err != nil {
				return nil, err
			}
			e = x
		} else if t.s == "[" {
			// slice type conversion like []byte(x) is not supported
			return nil, fmt.Errorf("unexpected '['")
		} else {
			return nil, fmt.Errorf("unexpected %q", t.s)
		}
	default:
		return nil, fmt.Errorf("unexpected end of expression")
	}
	for {
		switch {
		case p.accept("."):
			n := p.next()
			if n.k != "id" {
				return nil, fmt.Errorf("field name expected")
			}
			e = &ESel{X: e, Name: n.s}
		case p.accept("["):
			var lo Expr
			var err error
			if !(p.peek().k == "op" && p.peek().s == ":") {
				lo, err = p.expr(0)
				if err != nil {
					return nil, err
				}
			}
			if p.accept(":") {
				var hi Expr
				if !(p.peek().k == "op" && p.peek().s == "]") {
					hi, err = p.expr(0)
					if err != nil {
						return nil, err
					}
				}
				if err := p.expect("]"); err != nil {
					return nil, err
				}
				e = &ESlice{X: e, Lo: lo, Hi: hi}
			} else {
				if err := p.expect("]"); err != nil {
					return nil, err
				}
				e = &EIndex{X: e, I: lo}
			}
		case p.peek().k == "op" && p.peek().s == "(":
			name := exprName(e)
			if name == "" {
				return e, nil
			}
			p.next()
			var args []Expr
			if !p.accept(")") {
				for {
					a, err := p.expr(0)
					if err != nil {
						return nil, err
					}
					args = append(args, a)
					if p.accept(")") {
						break
					}
					if err := p.expect(","); err != nil {
						return nil, err
					}
				}
			}
			e = &ECall{Fun: name, Args: args}
		default:
			return e, nil
		}
	}
}

// exprString renders simple expressions (for labels).
func exprString(e Expr) string {
	switch x := e.(type) {
	case *EIdent:
		return x.Name
	case *ESel:
		return exprString(x.X) + "." + x.Name
	case *EIndex:
		return exprString(x.X) + "[" + exprString(x.I) + "]"
	case *ELit:
		return x.Text
	case *ECall:
		var as []string
		for _, a := range x.Args {
			as = append(as, exprString(a))
		}
		return x.Fun + "(" + strings.Join(as, ",") + ")"
	}
	return "expr"
}

func exprName(e Expr) string {
	switch x := e.(type) {
	case *EIdent:
		return x.Name
	case *ESel:
		if b := exprName(x.X); b != "" {
			return b + "." + x.Name
		}
	}
	return ""
}
