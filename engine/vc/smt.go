package vc

import (
	"os"
	"bytes"
	"context"
	"fmt"
	"os/exec"
	"sort"
	"strings"
	"sync"
	"time"
)

type Verdict int

const (
	VUnsat Verdict = iota
	VSat
	VUnknown
)

func (v Verdict) String() string { return [...]string{"unsat", "sat", "unknown"}[v] }

type QueryResult struct {
	Verdict Verdict
	Solver  string
	Dur     time.Duration
	Model   string // raw get-value output when sat
	Raw     string
}

type SolverSpec struct {
	Name string
	Cmd  func(timeoutSec int) []string
	Pre  string
}

var Solvers = []SolverSpec{
	{Name: "z3-5.1.0", Cmd: func(t int) []string { return []string{"z3-new", "-in", fmt.Sprintf("-T:%d", t)} }},
	{Name: "z3-4.8.12", Cmd: func(t int) []string { return []string{"z3", "-in", fmt.Sprintf("-T:%d", t)} }},
	{Name: "cvc5-1.0.3", Cmd: func(t int) []string {
		return []string{"cvc5", "--lang=smt2", "--incremental", fmt.Sprintf("--tlimit=%d", t*1000)}
	}, Pre: "(set-option :produce-models true)\n"},
}

// buildQuery renders an SMT-LIB script: decls + axioms + assumptions + negated goal.
// If slice is true only assumptions in the cone of influence of the goal are included.
func (x *Exec) buildQuery(pcs [][]*Term, goals []*Term, slice bool, getValues []*Term) string {
	return x.buildQueryOpt(pcs, goals, slice, getValues, false)
}

func hasQuant(t *Term) bool {
	return strings.Contains(t.String(), "(forall ") || strings.Contains(t.String(), "(exists ")
}

// buildQueryOpt: with dropQuant, assumptions that still contain quantifiers (after the instantiation
// step) are left out -- sound (fewer assumptions) and decidable for the solvers.
func (x *Exec) buildQueryOpt(pcs [][]*Term, goals []*Term, slice bool, getValues []*Term, dropQuant bool) string {
	// query construction declares skolem constants and caches term strings: serialised
	x.qmu.Lock()
	defer x.qmu.Unlock()
	// collect candidate assumptions (dedupe by pointer/string)
	type asm struct {
		t    *Term
		syms map[string]bool
	}
	var body []*Term // the final disjunction pieces
	var all []*Term
	seen := map[*Term]bool{}
	add := func(t *Term) {
		if !seen[t] {
			seen[t] = true
			all = append(all, t)
		}
	}
	if len(pcs) == 1 {
		for _, t := range pcs[0] {
			add(t)
		}
		// Skolemise universally quantified goals and instantiate the universally quantified
		// assumptions at the skolem constants (a sound, generic instantiation aid).
		g, sks := x.skolemize(goals[0])
		{
			var hyps []*Term
			var collect func(t *Term)
			collect = func(t *Term) {
				switch {
				case t.Op == "and":
					for _, a := range t.Args {
						collect(a)
					}
				case t.Op == "quant" && t.Q == "forall" && len(t.QVars) == 1:
					hyps = append(hyps, t)
				}
			}
			for _, t := range pcs[0] {
				collect(t)
			}
			// antecedents of the (skolemised) goal are hypotheses as well
			gg := g
			for gg.Op == "=>" {
				collect(gg.Args[0])
				gg = gg.Args[1]
			}
			if len(hyps) > 0 {
				// candidate instantiation terms: skolems and ground terms compared with something
				cands := append([]*Term{}, sks...)
				seenC := map[string]bool{}
				for _, s := range sks {
					seenC[s.String()] = true
				}
				var scan func(t *Term, depth int)
				visited := map[*Term]bool{}
				scan = func(t *Term, depth int) {
					if visited[t] || depth > 40 {
						return
					}
					visited[t] = true
					switch t.Op {
					case "bvslt", "bvsle", "bvsgt", "bvsge", "bvult", "bvule", "bvugt", "bvuge", "=":
						for _, a := range t.Args {
							if a.S.K == 'v' && !a.IsLit && len(a.String()) < 160 && isGroundTerm(a) && !seenC[a.String()] && len(cands) < 40 {
								seenC[a.String()] = true
								cands = append(cands, a)
							}
						}
					}
					if t.Op == "select" && len(t.Args) == 2 && t.Args[1].S.K == 'v' {
						// array indices (and, for base+offset indices, their summands)
						idxs := []*Term{t.Args[1]}
						if t.Args[1].Op == "bvadd" {
							idxs = append(idxs, t.Args[1].Args...)
							// index = base + rest: "rest" (the sum of all summands but one) instantiates a
							// hypothesis about s[J] at the position of a sub-slice element s[c+j]
							var sum []*Term
							var flat func(a *Term)
							flat = func(a *Term) {
								if a.Op == "const" && a.Def != nil && a.Def.Op == "bvadd" && len(sum) < 8 {
									a = a.Def
								}
								if a.Op == "bvadd" && len(sum) < 8 {
									for _, b := range a.Args {
										flat(b)
									}
									return
								}
								sum = append(sum, a)
							}
							flat(t.Args[1])
							if len(sum) >= 3 && len(sum) <= 5 {
								for skip := range sum {
									var rest *Term
									for k, s := range sum {
										if k == skip {
											continue
										}
										if rest == nil {
											rest = s
										} else {
											rest = BVBin("bvadd", rest, s)
										}
									}
									idxs = append(idxs, rest)
								}
							}
						}
						for _, a := range idxs {
							if !a.IsLit && len(a.String()) < 160 && isGroundTerm(a) && !seenC[a.String()] && len(cands) < 40 {
								seenC[a.String()] = true
								cands = append(cands, a)
							}
						}
					}
					for _, a := range t.Args {
						scan(a, depth+1)
					}
				}
				scan(g, 0)
				for _, h := range hyps {
					scan(h, 0)
				}
				for i := len(pcs[0]) - 1; i >= 0 && i >= len(pcs[0])-60; i-- {
					if pcs[0][i].Op != "quant" {
						scan(pcs[0][i], 0)
					}
				}
				// small literal indices (fixed-size byte arrays: hashes, 128-bit integers)
				if len(hyps) <= 8 {
					for k := int64(0); k < 16; k++ {
						cands = append(cands, BVLit64(k, 64))
					}
				}
				n := 0
				for _, h := range hyps {
					v := h.QVars[0]
					for _, c := range cands {
						if c.S.Eq(v.S) && n < 400 {
							add(Subst(h.Args[0], map[string]*Term{v.Name: c}))
							n++
						}
					}
				}
			}
		}
		body = append(body, Not(g))
	} else {
		// common prefix as assumptions, rest inside the disjunction
		minLen := len(pcs[0])
		for _, p := range pcs {
			if len(p) < minLen {
				minLen = len(p)
			}
		}
		pref := 0
		for pref < minLen {
			same := true
			for _, p := range pcs[1:] {
				if p[pref] != pcs[0][pref] {
					same = false
					break
				}
			}
			if !same {
				break
			}
			pref++
		}
		for _, t := range pcs[0][:pref] {
			add(t)
		}
		for i, p := range pcs {
			parts := append([]*Term{}, p[pref:]...)
			parts = append(parts, Not(goals[i]))
			body = append(body, And(parts...))
		}
	}
	for _, t := range x.initPC {
		add(t)
	}
	for _, t := range x.c.axioms {
		add(t)
	}
	for _, t := range x.extraAxioms {
		add(t)
	}
	goal := Or(body...)
	rel := map[string]bool{}
	goal.FreeConsts(rel)
	for _, g := range getValues {
		g.FreeConsts(rel)
	}
	var used []*Term
	if slice {
		asms := make([]asm, len(all))
		for i, t := range all {
			s := map[string]bool{}
			t.FreeConsts(s)
			asms[i] = asm{t, s}
		}
		// index: symbol -> assumptions mentioning it
		idx := map[string][]int{}
		// Constants connect assumptions. Function symbols (uninterpreted string functions etc.) connect
		// only the quantified axioms that define them -- otherwise every string literal would drag the
		// whole string axiomatisation (with array-sorted quantifiers) into every query.
		isFunc := func(s string) bool {
			d, ok := x.c.decls[s]
			return ok && !strings.Contains(d, " () ")
		}
		for i, a := range asms {
			quant := hasQuant(a.t)
			for s := range a.syms {
				if _, declared := x.c.decls[s]; declared {
					if isFunc(s) && !quant {
						continue
					}
					idx[s] = append(idx[s], i)
				}
			}
		}
		inc := make([]bool, len(asms))
		var work []string
		for s := range rel {
			work = append(work, s)
		}
		for len(work) > 0 {
			s := work[len(work)-1]
			work = work[:len(work)-1]
			for _, i := range idx[s] {
				if inc[i] {
					continue
				}
				inc[i] = true
				for s2 := range asms[i].syms {
					if !rel[s2] {
						rel[s2] = true
						work = append(work, s2)
					}
				}
			}
		}
		for i, a := range asms {
			if inc[i] {
				used = append(used, a.t)
			}
		}
	} else {
		used = all
		for _, t := range all {
			t.FreeConsts(rel)
		}
	}
	var sb strings.Builder
	sb.WriteString("(set-logic ALL)\n")
	for _, name := range x.c.declOrder {
		if name == "Str" || rel[name] {
			sb.WriteString(x.c.decls[name])
			sb.WriteString("\n")
		}
	}
	for _, t := range used {
		if dropQuant && hasQuant(t) {
			continue
		}
		sb.WriteString("(assert ")
		sb.WriteString(t.String())
		sb.WriteString(")\n")
	}
	sb.WriteString("(assert ")
	sb.WriteString(goal.String())
	sb.WriteString(")\n(check-sat)\n")
	if len(getValues) > 0 {
		sb.WriteString("(get-value (")
		for _, g := range getValues {
			sb.WriteString(g.String())
			sb.WriteString(" ")
		}
		sb.WriteString("))\n")
	}
	// cvc5 reserves the str.* namespace for its theory of strings: our uninterpreted string functions
	// are renamed on the way out
	return strings.ReplaceAll(sb.String(), "str.", "gstr_")
}

// isGroundTerm: no bound variable (bound variables carry the markers !b !q !wf !eq in their names).
func isGroundTerm(t *Term) bool {
	syms := map[string]bool{}
	t.FreeConsts(syms)
	for s := range syms {
		if strings.Contains(s, "!b") || strings.Contains(s, "!q") || strings.Contains(s, "!wf") || strings.Contains(s, "!eq") {
			return false
		}
	}
	return true
}

// skolemize strips universal quantifiers in positive positions of a goal (top level, under
// conjunctions and in consequents of implications), replacing bound variables by fresh constants.
func (x *Exec) skolemize(g *Term) (*Term, []*Term) {
	switch {
	case g.Op == "quant" && g.Q == "forall":
		m := map[string]*Term{}
		var sks []*Term
		for _, v := range g.QVars {
			sk := x.c.Fresh("sk_"+strings.SplitN(v.Name, "!", 2)[0], v.S)
			m[v.Name] = sk
			sks = append(sks, sk)
		}
		b, more := x.skolemize(Subst(g.Args[0], m))
		return b, append(sks, more...)
	case g.Op == "and" || g.Op == "or":
		var parts, sks []*Term
		for _, a := range g.Args {
			p, s := x.skolemize(a)
			parts = append(parts, p)
			sks = append(sks, s...)
		}
		if g.Op == "or" {
			return Or(parts...), sks
		}
		return And(parts...), sks
	case g.Op == "=>":
		c, sks := x.skolemize(g.Args[1])
		return Implies(g.Args[0], c), sks
	}
	return g, nil
}

func pcTerms(p *pcNode) []*Term {
	var out []*Term
	for q := p; q != nil; q = q.prev {
		out = append(out, q.t)
	}
	for i, j := 0, len(out)-1; i < j; i, j = i+1, j-1 {
		out[i], out[j] = out[j], out[i]
	}
	return out
}

// RunSolver runs one solver on a script.
func RunSolver(ctx context.Context, sp SolverSpec, script string, timeoutSec int) QueryResult {
	t0 := time.Now()
	args := sp.Cmd(timeoutSec)
	cctx, cancel := context.WithTimeout(ctx, time.Duration(timeoutSec+2)*time.Second)
	defer cancel()
	cmd := exec.CommandContext(cctx, args[0], args[1:]...)
	cmd.Stdin = strings.NewReader(sp.Pre + script)
	var out bytes.Buffer
	cmd.Stdout = &out
	cmd.Stderr = &out
	_ = cmd.Run()
	res := QueryResult{Solver: sp.Name, Dur: time.Since(t0), Raw: out.String()}
	first := strings.TrimSpace(strings.SplitN(out.String(), "\n", 2)[0])
	switch first {
	case "unsat":
		res.Verdict = VUnsat
	case "sat":
		res.Verdict = VSat
		if i := strings.Index(out.String(), "\n"); i >= 0 {
			res.Model = strings.TrimSpace(out.String()[i+1:])
		}
	default:
		res.Verdict = VUnknown
	}
	return res
}

// Race runs the solvers concurrently and returns the first definitive answer.
func Race(script string, timeoutSec int, specs []SolverSpec) QueryResult {
	ctx, cancel := context.WithCancel(context.Background())
	defer cancel()
	ch := make(chan QueryResult, len(specs))
	for _, sp := range specs {
		go func(sp SolverSpec) { ch <- RunSolver(ctx, sp, script, timeoutSec) }(sp)
	}
	var last QueryResult
	last.Verdict = VUnknown
	for range specs {
		r := <-ch
		if r.Verdict != VUnknown {
			return r
		}
		if last.Raw == "" || len(r.Raw) > 0 {
			last = r
		}
	}
	return last
}

// RaceQF races the full query on all solvers together with the quantifier-free rendering (fewer assumptions:
// only its "unsat" means anything) on the first two solvers.
func RaceQF(script, qf string, timeoutSec int, specs []SolverSpec) QueryResult {
	ctx, cancel := context.WithCancel(context.Background())
	defer cancel()
	n := len(specs)
	ch := make(chan QueryResult, n+2)
	for _, sp := range specs {
		go func(sp SolverSpec) { ch <- RunSolver(ctx, sp, script, timeoutSec) }(sp)
	}
	nq := 0
	if qf != "" {
		for i := 0; i < 2 && i < len(specs); i++ {
			nq++
			go func(sp SolverSpec) {
				r := RunSolver(ctx, sp, qf, timeoutSec)
				if r.Verdict != VUnsat {
					r.Verdict = VUnknown
				} else {
					r.Solver += " (quantifier-free)"
				}
				ch <- r
			}(specs[i])
		}
	}
	var last QueryResult
	last.Verdict = VUnknown
	for i := 0; i < n+nq; i++ {
		r := <-ch
		if r.Verdict != VUnknown {
			return r
		}
		if last.Raw == "" || len(r.Raw) > 0 {
			last = r
		}
	}
	return last
}

// OblResult is the verdict for one obligation (all its instances).
type OblResult struct {
	Name     string
	Kind     string
	Verdict  Verdict
	Solver   string
	Dur      time.Duration
	Insts    int
	Model    string
	Script   string // failing script (for explain / replay)
	RawOut   string
	Trivial  bool
	Instance int
}

type DischargeOpts struct {
	QuickTimeout int // seconds for the first attempt
	FullTimeout  int // seconds for the escalated race
	Workers      int
	GetValues    []*Term
	CrossCheck   bool
	// KnownOpen: obligations listed as known findings: tried with the quick timeout only (an unfixed defect is
	// not re-refuted at full length on every run; it is reported as KNOWN-FINDING unless it now proves)
	KnownOpen map[string]bool
}

// Discharge decides all obligations of a function result.
func Discharge(fr *FuncResult, opts DischargeOpts) []OblResult {
	x := fr.Exec
	type job struct {
		oi    int
		pcs   [][]*Term
		goals []*Term
		first int
	}
	var jobs []job
	results := make([]OblResult, len(fr.Obligations))
	for i, o := range fr.Obligations {
		results[i] = OblResult{Name: o.Name(), Kind: o.Kind, Verdict: VUnsat, Insts: len(o.Insts), Trivial: true}
		var pcs [][]*Term
		var goals []*Term
		first := 0
		chunk := 1
		if n := len(o.Insts); n > 24 {
			chunk = (n + 23) / 24
		}
		for k, in := range o.Insts {
			if in.Goal.IsTrue() {
				continue
			}
			if len(pcs) == 0 {
				first = k
			}
			pcs = append(pcs, pcTerms(in.PC))
			goals = append(goals, in.Goal)
			if len(pcs) == chunk {
				jobs = append(jobs, job{i, pcs, goals, first})
				pcs, goals = nil, nil
			}
		}
		if len(pcs) > 0 {
			jobs = append(jobs, job{i, pcs, goals, first})
		}
	}
	var mu sync.Mutex
	var wg sync.WaitGroup
	sem := make(chan struct{}, opts.Workers)
	for _, j := range jobs {
		wg.Add(1)
		sem <- struct{}{}
		go func(j job) {
			defer wg.Done()
			defer func() { <-sem }()
			jopts := opts
			if opts.KnownOpen[fr.Obligations[j.oi].Name()] {
				jopts.FullTimeout = 0
			}
			r := x.solveJob(j.pcs, j.goals, jopts)
			if os.Getenv("VCHECK_VERBOSE") != "" && r.Verdict == VUnsat && r.Dur.Seconds() > 5 {
				fmt.Fprintf(os.Stderr, "  [slow instance %d of %s: unsat by %s in %.1fs]\n", j.first, fr.Obligations[j.oi].Name(), r.Solver, r.Dur.Seconds())
				os.WriteFile(fmt.Sprintf("/tmp/vcheck_slow_%d_%s.smt2", j.first, safeFile(fr.Obligations[j.oi].Name())), []byte(r.Raw), 0o644)
			}
			if d := os.Getenv("VCHECK_DUMP"); d != "" && strings.Contains(fr.Obligations[j.oi].Name(), d) {
				os.WriteFile(fmt.Sprintf("/tmp/vcheck_dump_%d_%s.smt2", j.first, safeFile(fr.Obligations[j.oi].Name())), []byte(fmt.Sprintf("; verdict %s\n", r.Verdict)+r.Raw), 0o644)
			}
			if os.Getenv("VCHECK_VERBOSE") != "" && r.Verdict != VUnsat {
				fmt.Fprintf(os.Stderr, "  [instance %d of %s: %s by %s in %.1fs]\n", j.first, fr.Obligations[j.oi].Name(), r.Verdict, r.Solver, r.Dur.Seconds())
				os.WriteFile(fmt.Sprintf("/tmp/vcheck_inst_%d.smt2", j.first), []byte(r.Raw), 0o644)
			}
			mu.Lock()
			defer mu.Unlock()
			cur := &results[j.oi]
			cur.Trivial = false
			cur.Dur += r.Dur
			if cur.Solver == "" {
				cur.Solver = r.Solver
			}
			if r.Verdict != VUnsat && (cur.Verdict == VUnsat || (cur.Verdict == VUnknown && r.Verdict == VSat)) {
				cur.Verdict = r.Verdict
				cur.Solver = r.Solver
				cur.Model = r.Model
				cur.Script = r.Raw
				cur.RawOut = r.Raw
				cur.Instance = j.first
			}
		}(j)
	}
	wg.Wait()
	return results
}

type solveOut struct {
	Verdict Verdict
	Solver  string
	Dur     time.Duration
	Model   string
	Raw     string
}

func (x *Exec) solveJob(pcs [][]*Term, goals []*Term, opts DischargeOpts) solveOut {
	t0 := time.Now()
	// stage 0: quantifier-free attempt (quantified assumptions instantiated where possible, the rest dropped)
	qfScript := ""
	if qf := x.buildQueryOpt(pcs, goals, true, nil, true); os.Getenv("VCHECK_NOQF") == "" && !strings.Contains(qf, "(forall ") && !strings.Contains(qf, "(exists ") {
		qfScript = qf
		if r0 := RunSolver(context.Background(), Solvers[0], qf, opts.QuickTimeout); r0.Verdict == VUnsat {
			raw := ""
			if os.Getenv("VCHECK_DUMP") != "" {
				raw = qf
			}
			return solveOut{VUnsat, r0.Solver + " (quantifier-free)", time.Since(t0), "", raw}
		} else if os.Getenv("VCHECK_DUMPQF") != "" {
			os.WriteFile(fmt.Sprintf("/tmp/vcheck_qf_%d.smt2", time.Now().UnixNano()), []byte("; qf verdict "+string(r0.Verdict)+"\n"+qf+"\n(get-model)\n"), 0o644)
		}
	}
	script := x.buildQuery(pcs, goals, true, nil)
	r := RunSolver(context.Background(), Solvers[0], script, opts.QuickTimeout)
	if r.Verdict == VUnknown && opts.FullTimeout == 0 {
		return solveOut{VUnknown, r.Solver, time.Since(t0), "", script + "\n; ---- not decided within the quick limit (listed known finding: no full-length attempt) ----"}
	}
	if r.Verdict == VUnknown {
		r = RaceQF(script, qfScript, opts.FullTimeout, Solvers)
	}
	if r.Verdict == VSat {
		// confirm on the unsliced query (a dropped, contradictory component would make the path infeasible)
		full := x.buildQuery(pcs, goals, false, opts.GetValues)
		r2 := RunSolver(context.Background(), Solvers[0], full, opts.FullTimeout)
		if r2.Verdict == VUnknown {
			r2 = Race(full, opts.FullTimeout, Solvers)
		}
		return solveOut{r2.Verdict, r2.Solver, time.Since(t0), r2.Model, full + "\n; ---- solver output ----\n; " + strings.ReplaceAll(r2.Raw, "\n", "\n; ")}
	}
	if r.Verdict == VUnknown {
		return solveOut{VUnknown, r.Solver, time.Since(t0), "", script + "\n; ---- solver output ----\n; " + strings.ReplaceAll(r.Raw, "\n", "\n; ")}
	}
	if opts.CrossCheck {
		// no solver may refute what another proved
		for _, sp := range Solvers[1:] {
			rr := RunSolver(context.Background(), sp, script, opts.QuickTimeout)
			if rr.Verdict == VSat {
				return solveOut{VUnknown, sp.Name, time.Since(t0), rr.Model, script + "\n; cross-check disagreement: " + sp.Name + " says sat"}
			}
		}
	}
	if os.Getenv("VCHECK_VERBOSE") != "" {
		return solveOut{VUnsat, r.Solver, time.Since(t0), "", script}
	}
	return solveOut{VUnsat, r.Solver, time.Since(t0), "", ""}
}

// CheckSat reports whether a path condition is satisfiable (vacuity guard).
func (x *Exec) CheckSat(pc *pcNode, timeoutSec int) Verdict {
	// the quantifier-free rendering first (fewer assumptions): its "unsat" is conclusive, its "sat" is taken as
	// reachable (a contradiction that needs a quantified assumption is not looked for: the guard is about
	// contradictory path facts and contracts, and the full query is slow to answer "sat")
	if qf := x.buildQueryOpt([][]*Term{pcTerms(pc)}, []*Term{False}, false, nil, true); !strings.Contains(qf, "(forall ") && !strings.Contains(qf, "(exists ") {
		if r0 := RunSolver(context.Background(), Solvers[0], qf, timeoutSec); r0.Verdict != VUnknown {
			return r0.Verdict
		}
	}
	script := x.buildQuery([][]*Term{pcTerms(pc)}, []*Term{False}, false, nil)
	r := RunSolver(context.Background(), Solvers[0], script, timeoutSec)
	if r.Verdict == VUnknown {
		r = Race(script, timeoutSec, Solvers)
	}
	return r.Verdict
}

// CheckSatWith reports whether a path condition together with an extra condition is satisfiable.
func (x *Exec) CheckSatWith(pc *pcNode, cond *Term, timeoutSec int) Verdict {
	pcs := append(pcTerms(pc), cond)
	if qf := x.buildQueryOpt([][]*Term{pcs}, []*Term{False}, false, nil, true); !strings.Contains(qf, "(forall ") && !strings.Contains(qf, "(exists ") {
		if r0 := RunSolver(context.Background(), Solvers[0], qf, timeoutSec); r0.Verdict != VUnknown {
			return r0.Verdict
		}
	}
	script := x.buildQuery([][]*Term{pcs}, []*Term{False}, false, nil)
	r := RunSolver(context.Background(), Solvers[0], script, timeoutSec)
	if r.Verdict == VUnknown {
		r = Race(script, timeoutSec, Solvers)
	}
	return r.Verdict
}

func sortedNotes(m map[string]bool) []string {
	var out []string
	for k := range m {
		out = append(out, k)
	}
	sort.Strings(out)
	return out
}
