package vc

import (
	"go/token"
	"go/types"
)

// Writer-side library contracts (assumed): bytes.Buffer.Write / WriteByte and encoding/binary.Write over
// a writer that is (a wrapper struct embedding) a *bytes.Buffer.
//
// bytes.Buffer append contract: after Write(p) the unread part of the buffer is the old unread part
// followed by p, and the error is nil. The model keeps the same offsets in a fresh backing array
// (an old alias obtained from Bytes() is not kept in sync — which the library leaves unspecified anyway).

// bufFld resolves a named field of the struct pointed to by pv.
func (x *Exec) bufFld(pv Value, name string) *Loc {
	loc := x.ptrLoc(pv)
	stt := loc.T.Underlying().(*types.Struct)
	for i := 0; i < stt.NumFields(); i++ {
		if stt.Field(i).Name() == name {
			l := *loc
			lo, hi := x.c.fieldRange(stt, i)
			l.Lo, l.Hi, l.T = loc.Lo+lo, loc.Lo+hi, stt.Field(i).Type()
			return &l
		}
	}
	return nil
}

// bufAppend appends n bytes, byteAt(k) for k in [0,n), to the *bytes.Buffer pv. lit > 0 means n is the
// literal lit (store chain, no quantifier).
func (x *Exec) bufAppend(st *State, pv Value, byteAt func(k *Term) *Term, n *Term, lit int) {
	bf := x.bufFld(pv, "buf")
	data := x.load(st, bf)
	data.T = bf.T
	dp := sl(data)
	c := x.comp(st, "arr:uint8", types.Typ[types.Uint8], 0)
	old := Select(c, dp.base)
	end := BVBin("bvadd", dp.off, dp.ln)
	nb := x.newRef(st, "bufgrow")
	c = x.comp(st, "arr:uint8", types.Typ[types.Uint8], 0)
	var na *Term
	if lit > 0 && lit <= 16 {
		na = old
		for k := 0; k < lit; k++ {
			kt := BVLit64(int64(k), 64)
			na = Store(na, BVBin("bvadd", end, kt), byteAt(kt))
		}
	} else {
		na = x.c.Fresh("bufapp", SArr(idxSort, SBV(8)))
		i := Var("i!q", idxSort)
		rel := BVBin("bvsub", i, end)
		st.assume(Quant("forall", []*Term{i}, Eq(Select(na, i), Ite(BVCmp("bvult", rel, n), byteAt(rel), Select(old, i))), Select(na, i)))
	}
	x.setComp(st, "arr:uint8", types.Typ[types.Uint8], 0, Store(c, nb, na))
	nl := BVBin("bvadd", dp.ln, n)
	ncap := x.c.Fresh("bufcap", idxSort)
	st.assume(BVCmp("bvsle", nl, ncap))
	x.store(st, bf, Value{T: bf.T, L: []*Term{nb, dp.off, nl, ncap}})
	if lr := x.bufFld(pv, "lastRead"); lr != nil {
		x.store(st, lr, scalar(lr.T, BVLit64(0, 8)))
	}
	x.c.note("assumed: bytes.Buffer.Write appends its argument after the unread bytes and returns a nil error (buffer sizes far below the int range)")
}

// unwrapWriter follows interface -> concrete pointer -> (struct with an io.Writer field)* and returns the
// *bytes.Buffer pointer when that is what the chain ends in.
func (x *Exec) unwrapWriter(st *State, w Value) (Value, bool) {
	return x.unwrapIO(st, w, "io.Writer")
}

func (x *Exec) unwrapIO(st *State, w Value, ifaceName string) (Value, bool) {
	cur := w
	for depth := 0; depth < 4; depth++ {
		var T types.Type
		if cur.L[0].IsLit {
			id := int(cur.L[0].Val.Int64())
			if id > 0 && id < len(x.c.tagTypes) {
				T = x.c.tagTypes[id]
			}
		} else if id, ok := x.dynTags[cur.L[0].String()]; ok {
			T = x.c.tagTypes[id]
		}
		if T == nil {
			return Value{}, false
		}
		pv := x.unbox(st, cur, T)
		if typeName(T) == "*bytes.Buffer" {
			return pv, true
		}
		pt, ok := T.Underlying().(*types.Pointer)
		if !ok {
			return Value{}, false
		}
		stt, ok := pt.Elem().Underlying().(*types.Struct)
		if !ok {
			return Value{}, false
		}
		found := false
		for i := 0; i < stt.NumFields(); i++ {
			if typeName(stt.Field(i).Type()) == ifaceName {
				loc := *x.ptrLoc(pv)
				lo, hi := x.c.fieldRange(stt, i)
				loc.Lo, loc.Hi, loc.T = loc.Lo+lo, loc.Lo+hi, stt.Field(i).Type()
				cur = x.load(st, &loc)
				cur.T = loc.T
				found = true
				break
			}
		}
		if !found {
			return Value{}, false
		}
	}
	return Value{}, false
}

type limitReader struct {
	r Value
	n *Term
}

func registerIOModels(m map[string]Model) {
	errT := types.Universe.Lookup("error").Type()
	nilErr := Value{T: errT, L: []*Term{IntLit(0), IntLit(0)}}
	// io.LimitReader(r, n) / io.ReadAll: exact over a (wrapped) bytes.Buffer: ReadAll returns the next
	// min(n, unread) bytes in a fresh non-nil slice, advances the buffer by as much, and returns a nil error
	m["io.LimitReader"] = func(x *Exec, fr *Frame, st *State, args []Value, pos token.Pos) []Outcome {
		res := x.freshValue(st, "limitreader", x.lookupType("io.Reader"))
		st.assume(Not(Eq(res.L[0], IntLit(0))))
		if x.limitReaders == nil {
			x.limitReaders = map[string]limitReader{}
		}
		x.limitReaders[res.L[1].String()] = limitReader{args[0], args[1].L[0]}
		return retOne(st, res)
	}
	m["io.ReadAll"] = func(x *Exec, fr *Frame, st *State, args []Value, pos token.Pos) []Outcome {
		byteSl := types.NewSlice(types.Typ[types.Uint8])
		generic := func() []Outcome {
			x.havocReachable(st, args[0])
			res := x.freshValue(st, "readall", byteSl)
			return []Outcome{{St: st, Kind: OutReturn, Rets: []Value{res, x.freshValue(st, "readall_err", errT)}}}
		}
		var limit *Term
		r := args[0]
		if len(r.L) > 1 {
			if lr, ok := x.limitReaders[r.L[1].String()]; ok {
				r, limit = lr.r, lr.n
			}
		}
		pv, ok := x.unwrapIO(st, r, "io.Reader")
		if !ok {
			return generic()
		}
		bf, of := x.bufFld(pv, "buf"), x.bufFld(pv, "off")
		data := x.load(st, bf)
		data.T = bf.T
		dp := sl(data)
		off := x.idx64(x.load(st, of))
		rem := BVBin("bvsub", dp.ln, off)
		cnt := rem
		if limit != nil {
			cnt = Ite(BVCmp("bvsle", limit, BVLit64(0, 64)), BVLit64(0, 64), Ite(BVCmp("bvslt", limit, rem), limit, rem))
		}
		cnt = x.define(st, "readall_n", cnt)
		c := x.comp(st, "arr:uint8", types.Typ[types.Uint8], 0)
		src := Select(c, dp.base)
		ref := x.newRef(st, "readall")
		c = x.comp(st, "arr:uint8", types.Typ[types.Uint8], 0)
		na := x.c.Fresh("readall", SArr(idxSort, SBV(8)))
		i := Var("i!q", idxSort)
		st.assume(Quant("forall", []*Term{i}, Eq(Select(na, i), Ite(BVCmp("bvult", i, cnt), Select(src, BVBin("bvadd", BVBin("bvadd", dp.off, off), i)), BVLit64(0, 8))), Select(na, i)))
		x.setComp(st, "arr:uint8", types.Typ[types.Uint8], 0, Store(c, ref, na))
		ncap := x.c.Fresh("readall_cap", idxSort)
		st.assume(BVCmp("bvsle", cnt, ncap))
		pw, _, _ := basicWidth(of.T.Underlying().(*types.Basic))
		x.store(st, of, scalar(of.T, Extract(pw-1, 0, BVBin("bvadd", off, cnt))))
		if lr := x.bufFld(pv, "lastRead"); lr != nil {
			x.store(st, lr, scalar(lr.T, BVLit64(0, 8)))
		}
		x.c.note("assumed: io.ReadAll over (a LimitReader over) a bytes.Buffer returns the next min(limit, unread) bytes in a fresh slice and a nil error")
		return []Outcome{{St: st, Kind: OutReturn, Rets: []Value{{T: byteSl, L: []*Term{ref, BVLit64(0, 64), cnt, ncap}}, nilErr}}}
	}
	m["(*bytes.Buffer).Write"] = func(x *Exec, fr *Frame, st *State, args []Value, pos token.Pos) []Outcome {
		x.oblige(fr, st, "nil", x.src(fr.fn, pos, "Write")+"(buffer)", pos, Not(Eq(args[0].L[0], IntLit(0))))
		st.assume(Not(Eq(args[0].L[0], IntLit(0))))
		p := sl(args[1])
		c := x.comp(st, "arr:uint8", types.Typ[types.Uint8], 0)
		src := Select(c, p.base)
		x.bufAppend(st, args[0], func(k *Term) *Term { return Select(src, BVBin("bvadd", p.off, k)) }, p.ln, 0)
		return []Outcome{{St: st, Kind: OutReturn, Rets: []Value{scalar(tInt, p.ln), nilErr}}}
	}
	m["(*bytes.Buffer).WriteByte"] = func(x *Exec, fr *Frame, st *State, args []Value, pos token.Pos) []Outcome {
		x.oblige(fr, st, "nil", x.src(fr.fn, pos, "WriteByte")+"(buffer)", pos, Not(Eq(args[0].L[0], IntLit(0))))
		st.assume(Not(Eq(args[0].L[0], IntLit(0))))
		b := args[1].L[0]
		x.bufAppend(st, args[0], func(k *Term) *Term { return b }, BVLit64(1, 64), 1)
		return []Outcome{{St: st, Kind: OutReturn, Rets: []Value{nilErr}}}
	}
	// encoding/binary.Write(w, order, data) for fixed-size integers, bool and byte slices: the bytes of data in
	// the given order are handed to w.Write in one call
	m["encoding/binary.Write"] = func(x *Exec, fr *Frame, st *State, args []Value, pos token.Pos) []Outcome {
		w, order, data := args[0], args[1], args[2]
		generic := func(why string) []Outcome {
			x.c.note("assumed: encoding/binary.Write (%s): effect on the writer unconstrained", why)
			x.havocReachable(st, w)
			return retOne(st, x.freshValue(st, "binwrite_err", errT))
		}
		tagT := func(v Value) types.Type {
			if v.L[0].IsLit {
				id := int(v.L[0].Val.Int64())
				if id > 0 && id < len(x.c.tagTypes) {
					return x.c.tagTypes[id]
				}
			} else if id, ok := x.dynTags[v.L[0].String()]; ok {
				return x.c.tagTypes[id]
			}
			return nil
		}
		DT, OT := tagT(data), tagT(order)
		if DT == nil || OT == nil {
			return generic("data or byte order of unknown dynamic type")
		}
		little := typeName(OT) == "encoding/binary.littleEndian"
		if !little && typeName(OT) != "encoding/binary.bigEndian" {
			return generic("custom byte order")
		}
		x.oblige(fr, st, "nil", x.src(fr.fn, pos, "Write")+"(writer)", pos, Not(Eq(w.L[0], IntLit(0))))
		st.assume(Not(Eq(w.L[0], IntLit(0))))
		pv, ok := x.unwrapWriter(st, w)
		if !ok {
			return generic("writer is not known to be a bytes.Buffer")
		}
		dv := x.unbox(st, data, DT)
		switch u := DT.Underlying().(type) {
		case *types.Basic:
			var width int
			var bits *Term
			if u.Kind() == types.Bool {
				width = 8
				bits = Ite(dv.L[0], BVLit64(1, 8), BVLit64(0, 8))
			} else if wd, _, ok := basicWidth(u); ok && u.Kind() != types.Int && u.Kind() != types.Uint && u.Kind() != types.Uintptr {
				width, bits = wd, dv.L[0]
			} else {
				return generic("data of a type binary.Write rejects or encodes by reflection")
			}
			nb := width / 8
			x.bufAppend(st, pv, func(k *Term) *Term {
				j := int(k.Val.Int64())
				if !little {
					j = nb - 1 - j
				}
				return Extract(8*j+7, 8*j, bits)
			}, BVLit64(int64(nb), 64), nb)
			return retOne(st, nilErr)
		case *types.Slice:
			if b, ok := u.Elem().Underlying().(*types.Basic); ok && b.Kind() == types.Uint8 {
				p := sl(dv)
				c := x.comp(st, "arr:uint8", types.Typ[types.Uint8], 0)
				src := Select(c, p.base)
				x.bufAppend(st, pv, func(k *Term) *Term { return Select(src, BVBin("bvadd", p.off, k)) }, p.ln, 0)
				return retOne(st, nilErr)
			}
		}
		return generic("data of a composite type")
	}
}
