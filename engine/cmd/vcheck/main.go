package main

import (
	"flag"
	"fmt"
	"os"

	"verif/engine/vc"
)

func main() {
	if len(os.Args) < 2 {
		fmt.Fprintln(os.Stderr, "usage: vcheck <gen|check|selftest|list> ...")
		os.Exit(2)
	}
	switch os.Args[1] {
	case "gen":
		fs := flag.NewFlagSet("gen", flag.ExitOnError)
		pkg := fs.String("pkg", "", "package pattern(s), comma separated")
		fn := fs.String("func", "", "function key suffix")
		dump := fs.String("dump", "", "obligation name substring whose script to dump")
		dbg := fs.Bool("debug", false, "panic on engine errors")
		np := fs.Bool("nopanic", true, "emit no-panic obligations")
		fs.Parse(os.Args[2:])
		os.Exit(vc.CmdGen(*pkg, *fn, *dump, *dbg, *np))
	case "check":
		fs := flag.NewFlagSet("check", flag.ExitOnError)
		prop := fs.String("property", "", "property id")
		tier := fs.String("tier", "quick", "quick|thorough")
		fs.Parse(os.Args[2:])
		os.Exit(vc.CmdCheck(*prop, *tier))
	default:
		fmt.Fprintln(os.Stderr, "unknown command", os.Args[1])
		os.Exit(2)
	}
}
